"""Builtins, external library functions and bound methods of abstract values."""
import ast
import math
from fractions import Fraction

from . import ep
from . import modelguard
from .model import AnalysisError, ClassInfo
from .values import *    # noqa
from .strtree import *   # noqa
from .symeval import Env, RaiseSignal, is_strlike, neg_cond, make_phi, seq_concat
from .symeval_ops import BoundBuiltin, DerivV, NTClassV, NTV, ExcV, ChunkListV, BoundTupleOf, PyObjV, StaticV, ClassMethodV, PartialV, AttrGetter


_MATH1 = {"exp": ep.exp_, "log": ep.log_, "sqrt": ep.sqrt_}
import re as _re_mod
_SYMNUM = _re_mod.compile(r"^@[A-Za-z_][A-Za-z_0-9]*$")
_CONSUMERS = {"sorted", "list", "tuple", "set", "frozenset", "map", "filter", "zip", "dict", "sum", "min", "max", "any", "all", "enumerate", "reversed", "len"}


def concrete_key(v):
    """a dictionary key whose value is fully known: text, None, booleans, numerals, tuples / named tuples of those"""
    if isinstance(v, Const):
        return True
    if isinstance(v, Num):
        return v.const() is not None
    if isinstance(v, ListV) and not getattr(v, "tail", None):
        return all(concrete_key(x) for x in v.items)
    if isinstance(v, NTV):
        return all(concrete_key(x) for x in v.values)
    return False


class ExtMixin(object):

    def call_external(self, fn, args, kwargs, node, env):
        name = fn.name
        short = name.split(".", 1)[1] if name.startswith("builtins.") else name
        h = getattr(self, "x_" + short.replace(".", "_"), None)
        if h is not None:
            if short in _CONSUMERS and args and hasattr(args[0], "thunk"):
                # a generator handed to a consuming builtin is drained there and then
                args = [self.as_iterable(args[0], node)] + list(args[1:])
            ig = modelguard.unread(h, args, kwargs)
            if ig is not None:
                self.err(node, "model of %s does not cover %s" % (short, ig))
            return h(args, kwargs, node, env)
        base = short.split(".")
        if base[0] in ("math", "sympy", "numpy", "np") and len(base) == 2:
            f = base[1]
            if f in _MATH1 and len(args) == 1:
                a0 = self.num(args[0], node)
                c0 = a0.as_const()
                if c0 is not None and ((f in ("log", "log10", "log2") and c0 <= 0) or (f == "sqrt" and c0 < 0)) and base[0] == "math":
                    # what Python does: math.log(0), math.sqrt(-1) raise ValueError
                    raise RaiseSignal(ExcV(ExtV("builtins.ValueError"), [Const("math domain error")]), node)
                try:
                    return Num(_MATH1[f](a0), True)
                except ep.Unsupported as e:
                    self.err(node, str(e))
            if f == "log" and len(args) == 2:
                den = ep.log_(self.num(args[1], node))
                if den.as_const() == 0:
                    raise RaiseSignal(ExcV(ExtV("builtins.ZeroDivisionError"), [Const("float division by zero")]), node)
                return Num(ep.log_(self.num(args[0], node)) / den)
            if f in ("floor", "ceil", "trunc") and len(args) == 1:
                c = self.num(args[0], node).as_const()
                if c is not None:
                    return Num(ep.const({"floor": math.floor, "ceil": math.ceil, "trunc": math.trunc}[f](c)))
                return Num(ep.app(f, [self.num(args[0], node)]))
            if f == "factorial" and len(args) == 1:
                c = self.num(args[0], node).as_const()
                if c is not None and c.denominator == 1:
                    return Num(ep.const(math.factorial(int(c))))
            if f == "symbols" and base[0] == "sympy":
                return ("sympy_symbols", args[0])
            if f in ("sin", "cos", "tan", "tanh", "sinh", "cosh", "atan", "erf", "erfc", "fabs"):
                return Num(ep.app("math." + f, [self.num(a, node) for a in args]))
            if base[0] == "math" and f == "fsum" and len(args) == 1 and not kwargs:
                seq = self.as_iterable(args[0], node)
                if isinstance(seq, ListV) and not getattr(seq, "tail", None):
                    tot = ep.const(0)
                    for it in seq.items:
                        tot = tot + self.num(it, node)
                    return Num(tot, True)
            if base[0] == "math" and callable(getattr(math, f, None)) and args and not kwargs \
                    and all(isinstance(a, Num) for a in args):
                # any other function of the math module: an uninterpreted function of its arguments, in order
                return Num(ep.app("math." + f, [a.rf for a in args]), True)
        if short in ("logging.getLogger",) or short.startswith("logging."):
            return LoggerV()
        if name.endswith("Exception") or name.endswith("Error"):
            return ExcV(fn, args)
        if short in ("configparser.ExtendedInterpolation", "configparser.BasicInterpolation"):
            return Opaque(("extcall", name, (), ()))
        if base[0] in ("scipy", "numpy", "np"):
            kw = tuple(sorted((k, v.key()) for k, v in kwargs.items()))
            self.log_event(("extcall", name))
            return Opaque(("extcall", name, tuple(a.key() for a in args), kw))
        self.err(node, "call of external %s" % name)

    # -- numeric builtins
    def x_float(self, args, kwargs, node, env):
        v = args[0]
        if isinstance(v, Num):
            return v
        if isinstance(v, Const) and isinstance(v.v, str) and _SYMNUM.match(v.v.strip()):
            # analysis convention: the text '@name' in a model input stands for an arbitrary number called name
            return Num(ep.sym(v.v.strip()[1:]), True)
        if isinstance(v, Const) and isinstance(v.v, str):
            try:
                return Num(ep.const(Fraction(v.v.strip()))) if v.v.strip() not in ("inf", "-inf") else Num(ep.sym(v.v.strip()))
            except Exception:
                raise RaiseSignal(ExcV(ExtV("builtins.ValueError"), [v]), node)
        if isinstance(v, (Opaque, Phi, LookupV)):
            return Num(self.num(v, node))
        if (isinstance(v, InstV) and v.ci.lookup("__float__") is None and v.ci.lookup("__index__") is None
                and not any(type(c).__name__ == "ExternalClass" and c.name.split(".")[-1] != "object" for c in v.ci.mro())) \
                or isinstance(v, (ListV, DictV, FuncV, ClassV)) or (isinstance(v, Const) and v.v is None):
            raise RaiseSignal(ExcV(ExtV("builtins.TypeError"), [Const("float() argument must be a string or a real number")]), node)
        self.err(node, "float(%r)" % (v,))

    def x_int(self, args, kwargs, node, env):
        v = args[0]
        if isinstance(v, Num):
            c = v.const()
            if c is not None:
                return Num(ep.const(int(c)))
            rng = self.affine_range(v.rf)
            if rng is not None:
                import math as _m
                lo, hi = rng                 # open interval
                if lo >= 0 and _m.floor(lo) == _m.ceil(hi) - 1:
                    return Num(ep.const(_m.floor(lo)))
                if hi <= 0 and _m.ceil(hi) == _m.floor(lo) + 1:
                    return Num(ep.const(_m.ceil(hi)))
                self.err(node, "int() of %r: its value over the declared interval is not one whole number" % (v,))
            if not v.inexact:
                return v
            return Num(ep.app("int", [v.rf]))
        if isinstance(v, Const) and isinstance(v.v, str) and _SYMNUM.match(v.v.strip()):
            return Num(ep.sym(v.v.strip()[1:]))        # '@name': an arbitrary whole number called name
        if isinstance(v, Const) and isinstance(v.v, str):
            try:
                return Num(ep.const(int(v.v)))
            except Exception:
                raise RaiseSignal(ExcV(ExtV("builtins.ValueError"), [v]), node)
        if isinstance(v, Opaque):
            return Num(self.num(v, node))
        self.err(node, "int(%r)" % (v,))

    def x_round(self, args, kwargs, node, env):
        x = self.num(args[0], node)
        c = x.as_const()
        if c is not None and len(args) == 1:
            return Num(ep.const(round(c)))
        return Num(ep.app("round", [x] + [self.num(a, node) for a in args[1:]]))

    def x_abs(self, args, kwargs, node, env):
        x = self.num(args[0], node)
        c = x.as_const()
        if c is not None:
            return Num(ep.const(abs(c)))
        return Num(ep.app("abs", [x]))

    def x_len(self, args, kwargs, node, env):
        v = args[0]
        if isinstance(v, (ListV,)):
            return Num(ep.const(len(v.items)))
        if isinstance(v, NTV):
            return Num(ep.const(len(v.values)))
        if isinstance(v, DictV):
            if getattr(v, "symkeys", False):
                self.err(node, "len() of a dictionary whose keys may coincide (undecided key equality)")
            return Num(ep.const(len(v.items)))
        if isinstance(v, Const) and isinstance(v.v, str):
            return Num(ep.const(len(v.v)))
        if isinstance(v, SeqV):
            return Num(self.seq_len(v))
        if isinstance(v, Opaque):
            return Num(ep.app(("len", v.path), []))
        if isinstance(v, ChunkListV):
            return Unknown("chunklen")
        if isinstance(v, SortedV):
            return Num(ep.const(len(v.items)))
        if isinstance(v, Num) or (isinstance(v, Const) and (v.v is None or isinstance(v.v, bool))) or isinstance(v, (FuncV, BufV)):
            raise RaiseSignal(ExcV(ExtV("builtins.TypeError"), [Const("object of type %s has no len()" % type(v).__name__)]), node)
        self.err(node, "len(%r)" % (v,))

    def x_range(self, args, kwargs, node, env):
        nums = [self.num(a, node) for a in args]
        if len(nums) == 1:
            lo, hi = ep.const(0), nums[0]
        elif len(nums) == 2:
            lo, hi = nums
        else:
            self.err(node, "range with step")
        cl, ch = lo.as_const(), hi.as_const()
        if cl is not None and ch is not None and ch - cl <= self.UNROLL_LIMIT:
            return ListV([Num(ep.const(i)) for i in range(int(cl), int(ch))], "list")
        v = self.fresh_sym("n")
        return SeqV("family", var=v, lo=lo, hi=hi, elem=Num(ep.sym(v)))

    def x_sum(self, args, kwargs, node, env):
        if len(args) == 2 or "start" in kwargs:
            start = args[1] if len(args) == 2 else kwargs["start"]
            rest = self.num(self.x_sum([args[0]], {}, node, env), node)
            return Num(self.num(start, node) + rest)
        if kwargs or len(args) != 1:
            self.err(node, "sum() arguments")
        v = args[0]
        if isinstance(v, ListV):
            total = ep.const(0)
            for it in v.items:
                total = total + self.num(it, node)
            return Num(total)
        if isinstance(v, SeqV) and v.kind == "concat":
            total = ep.const(0)
            for p in v.parts:
                total = total + self.num(self.x_sum([p], {}, node, env), node)
            return Num(total)
        if isinstance(v, SeqV) and v.kind in ("family", "seqmap"):
            return Num(ep.app(("sum", v.key()), []))
        self.err(node, "sum(%r)" % (v,))

    def x_any(self, args, kwargs, node, env):
        return self._anyall(False, args, node)

    def x_all(self, args, kwargs, node, env):
        return self._anyall(True, args, node)

    def _anyall(self, isand, args, node):
        v = args[0]
        if isinstance(v, DictV):
            v = ListV([k for k, _ in v.items.values()], "list")
        if isinstance(v, NTV):
            v = ListV(list(v.values), "tuple")
        if isinstance(v, SeqV) and v.kind in ("seqmap", "family"):
            t = self.truth(v.elem)
            if isinstance(t, bool) and t == isand:
                return Const(isand)          # all([True, ...]) / any([False, ...]) whatever the length
            n = self.seq_len(v)
            if isinstance(t, bool):
                # decided by emptiness alone
                c = self.compare(ast.Gt(), Num(n), Num(ep.const(0)), node)
                if isinstance(c, bool):
                    return Const(c if not isand else not c)
                return c if not isand else neg_cond(c)
            return Cond("unknown", ("all" if isand else "any", v.key()))
        if not (isinstance(v, ListV) and not getattr(v, "tail", None)):
            self.err(node, "%s(%r)" % ("all" if isand else "any", v))
        conds = []
        for it in v.items:
            t = self.truth(it)
            if isinstance(t, bool):
                if t != isand:
                    return Const(t)
                continue
            conds.append(t)
        if not conds:
            return Const(isand)
        if len(conds) == 1:
            return conds[0]
        return Cond("and" if isand else "or", *conds)

    def x_min(self, args, kwargs, node, env):
        return self._minmax("min", args, node)

    def x_max(self, args, kwargs, node, env):
        return self._minmax("max", args, node)

    def _minmax(self, which, args, node):
        items = args[0].items if (len(args) == 1 and isinstance(args[0], ListV)) else args
        nums = [self.num(a, node) for a in items]
        cs = [n.as_const() for n in nums]
        if all(c is not None for c in cs):
            return Num(ep.const(min(cs) if which == "min" else max(cs)))
        if len(nums) == 2:
            # two numbers: the one the comparison picks, when the comparison is decided (concretely or by an assumption)
            c = self.compare(ast.Lt(), Num(nums[0]), Num(nums[1]), node)
            if isinstance(c, Cond):
                c = self.assume(c)
            if isinstance(c, bool):
                first_smaller = c
                pick_first = first_smaller if which == "min" else not first_smaller
                # on a tie both are the same number; min/max return the first of equal items
                return Num(nums[0] if pick_first else nums[1])
        return Num(ep.app(which, nums))

    def x_pow(self, args, kwargs, node, env):
        return Num(ep.pow_(self.num(args[0], node), self.num(args[1], node)))

    # -- type-ish builtins
    def x_str(self, args, kwargs, node, env):
        v = args[0]
        if is_strlike(v):
            return v
        if isinstance(v, Num) and v.const() is not None and v.const().denominator == 1:
            return Const(str(int(v.const())))
        return StrV(SFmt("s", v))

    def x_repr(self, args, kwargs, node, env):
        c = self._concrete_repr(args[0])
        if c is not None:
            return Const(c)
        return self.x_str(args, kwargs, node, env)

    def _concrete_repr(self, v):
        """repr() of a fully concrete value (used as a dictionary key or compared: what matters is that equal values give
        equal text and different values different text)"""
        if isinstance(v, Const):
            return repr(v.v)
        if isinstance(v, Num):
            c = v.const()
            if c is None:
                return None
            return repr(float(c)) if (v.inexact or c.denominator != 1) else repr(int(c))
        if isinstance(v, ListV) and not getattr(v, "tail", None):
            parts = [self._concrete_repr(i) for i in v.items]
            if any(p is None for p in parts):
                return None
            if v.kind == "tuple":
                return "(" + ", ".join(parts) + ("," if len(parts) == 1 else "") + ")"
            return "[" + ", ".join(parts) + "]"
        if isinstance(v, NTV):
            parts = [self._concrete_repr(i) for i in v.values]
            if any(p is None for p in parts):
                return None
            return "%s(%s)" % (v.cls.name, ", ".join("%s=%s" % (f_, p) for f_, p in zip(v.cls.fields, parts)))
        return None

    def x_bool(self, args, kwargs, node, env):
        t = self.truth(args[0])
        return Const(t) if isinstance(t, bool) else t

    def x_tuple(self, args, kwargs, node, env):
        if not args:
            return ListV([], "tuple")
        v = args[0]
        if isinstance(v, ListV):
            return ListV(v.items, "tuple")
        if isinstance(v, (SortedV, ChunkListV)):
            return v
        if isinstance(v, SeqV):
            return v
        return self.as_iterable(v, node)

    def x_list(self, args, kwargs, node, env):
        if not args:
            return ListV([], "list")
        v = args[0]
        if isinstance(v, ListV):
            return ListV(list(v.items), "list")
        if isinstance(v, DictV):
            return ListV([k for k, _ in v.items.values()], "list")
        if isinstance(v, (SeqV, SortedV)):
            return v
        if isinstance(v, BoundTupleOf):
            return ListV(v.items, "list")
        return self.as_iterable(v, node)

    def x_set(self, args, kwargs, node, env):
        if not args:
            out = SetAccV()
            out.depth = len(getattr(self, "loop_stack", ()))    # symbolic loops open where the set is made
            return out
        v = args[0]
        if isinstance(v, ListV):
            seen = {}
            for it in v.items:
                seen.setdefault(it.key(), it)
            return ListV(list(seen.values()), "set")
        if isinstance(v, DictV):
            return ListV([k for k, _ in v.items.values()], "set")
        if isinstance(v, NTV):
            return self.x_set([ListV(list(v.values), "tuple")], kwargs, node, env)
        if type(v).__name__ == "IterV":
            return self.x_set([self.as_iterable(v, node)], kwargs, node, env)
        self.err(node, "set(%r)" % (v,))

    def x_dict(self, args, kwargs, node, env):
        d = DictV()
        if args:
            src = args[0]
            if isinstance(src, DictV):
                d.items = dict(src.items)
            elif isinstance(src, SeqV) and src.kind == "seqmap" and isinstance(src.elem, ListV) and len(src.elem.items) == 2:
                return LoopDictV(src.var, src.seq, src.elem.items[0], src.elem.items[1])
            elif isinstance(src, SeqV) and src.kind == "family" and isinstance(src.elem, ListV) and len(src.elem.items) == 2:
                idx = SeqV("family", var=src.var, lo=src.lo, hi=src.hi, elem=Num(ep.sym(src.var)))
                return LoopDictV(src.var, idx, src.elem.items[0], src.elem.items[1])
            elif isinstance(src, ListV) and all(isinstance(i, ListV) and len(i.items) == 2 for i in src.items):
                for it in src.items:
                    d.items[it.items[0].key()] = (it.items[0], it.items[1])
            else:
                self.err(node, "dict(%r)" % (src,))
        for k, v in kwargs.items():
            d.items[Const(k).key()] = (Const(k), v)
        return d

    def x_sorted(self, args, kwargs, node, env):
        v = args[0]
        if isinstance(v, NTV):
            v = ListV(list(v.values), "list")
        if isinstance(v, Opaque):
            v = self.as_iterable(v, node)
        if kwargs and set(kwargs) <= {"key", "reverse"} and not isinstance(kwargs.get("key"), CmpKeyV):
            src = self.as_iterable(v, node)
            if isinstance(src, SeqV) and src.kind in ("opaque", "seqmap", "family"):
                # a symbolic sequence re-ordered by a key we do not evaluate: some permutation of it, identified by the key
                kk = tuple(sorted((k, val.key()) for k, val in kwargs.items()))
                path = ("sorted_by", src.key(), kk)
                out = SeqV("opaque", path=path, elem_class=getattr(src, "elem_class", None))
                out.length = self.seq_len(src)
                if getattr(src, "elem_class", None) is not None:
                    self.elem_classes[path] = src.elem_class
                return out
        if kwargs:
            if set(kwargs) == {"key"} and isinstance(kwargs["key"], CmpKeyV):
                # sorted(xs, key=cmp_to_key(f)) is list(xs) followed by .sort(key=cmp_to_key(f))
                src = self.as_iterable(v, node)
                if isinstance(src, ListV) and not getattr(src, "tail", None):
                    out = ListV(list(src.items), "list")
                    self.m_ListV_sort(out, [], kwargs, node)
                    return out
            if set(kwargs) <= {"key", "reverse"}:
                # a list of known items, a key function that gives a concrete string / number for each of them and a
                # literal reverse flag: the library's stable sort by those keys
                src = self.as_iterable(v, node)
                rev = kwargs.get("reverse", FALSE)
                if isinstance(src, DictV):
                    src = ListV([k for k, _ in src.items.values()], "list")
                if isinstance(src, ListV) and not getattr(src, "tail", None) and isinstance(rev, Const) and isinstance(rev.v, bool):
                    keys = []
                    for it in src.items:
                        kf = kwargs.get("key")
                        if isinstance(kf, ExtV) and kf.name.startswith("builtins.str.") and isinstance(it, Const) \
                                and isinstance(it.v, str) \
                                and kf.name.split(".")[-1] in ("lower", "upper", "casefold", "strip", "swapcase", "title", "capitalize"):
                            kv = Const(getattr(str, kf.name.split(".")[-1])(it.v))      # unbound pure str method
                        else:
                            kv = self.call(kf, [it], {}) if kf is not None else it
                        if isinstance(kv, Num) and kv.const() is not None:
                            keys.append((0, kv.const()))
                        elif isinstance(kv, Const) and isinstance(kv.v, (str, int, float)) and not isinstance(kv.v, bool):
                            keys.append((1 if isinstance(kv.v, str) else 0, kv.v))
                        else:
                            keys = None
                            break
                    if keys is not None and len(set(k[0] for k in keys)) <= 1:
                        order = sorted(range(len(keys)), key=lambda j: keys[j][1], reverse=rev.v)
                        if rev.v:
                            # reverse=True keeps the original order of equal keys
                            order = sorted(range(len(keys)), key=lambda j: keys[j][1])
                            groups, out_o = [], []
                            for j in order:
                                if groups and keys[groups[-1][0]][1] == keys[j][1]:
                                    groups[-1].append(j)
                                else:
                                    groups.append([j])
                            for g in reversed(groups):
                                out_o.extend(g)
                            order = out_o
                        return ListV([src.items[j] for j in order], "list")
            self.err(node, "sorted with key/reverse")
        if isinstance(v, DictV):
            v = ListV([k for k, _ in v.items.values()], "list")
        if isinstance(v, ListV):
            if all(isinstance(i, Const) for i in v.items):
                return ListV(sorted(v.items, key=lambda c: c.v), "list")
            if all(isinstance(i, Num) and i.const() is not None for i in v.items):
                return ListV(sorted(v.items, key=lambda c: c.const()), "list")
            ck = [_concrete_key(i) for i in v.items]
            if all(k is not None for k in ck):
                try:
                    order = sorted(range(len(ck)), key=lambda j: ck[j])
                    return ListV([v.items[j] for j in order], "list")
                except TypeError:
                    pass
            # tuples compare lexicographically: concrete, pairwise distinct leading components decide the order
            if v.items and all(isinstance(i, ListV) and i.items for i in v.items):
                heads = [_concrete_key(i.items[0]) for i in v.items]
                if all(h is not None for h in heads) and len(set(heads)) == len(heads):
                    try:
                        order = sorted(range(len(heads)), key=lambda j: heads[j])
                        return ListV([v.items[j] for j in order], "list")
                    except TypeError:
                        pass
            return SortedV(v.items)
        if isinstance(v, SetAccV) and not v.adds:
            # only ever filled outside symbolic loops: an ordinary concrete set
            seen = {}
            for c in v.concrete:
                seen.setdefault(c.key(), c)
            return self.x_sorted([ListV(list(seen.values()), "list")], {}, node, env)
        if isinstance(v, SetAccV):
            return v.as_sorted()
        if isinstance(v, SeqV) and v.kind in ("seqmap", "family", "opaque"):
            out = SeqV("opaque", path=("sorted", v.key()), elem_class=None)
            out.length = self.seq_len(v)
            return out
        if isinstance(v, BoundBuiltin) and v.name in ("keys",):
            return self.x_sorted([v.base], {}, node, env)
        if isinstance(v, LoopDictV):
            return self.x_sorted([SeqV("seqmap", var=v.var, seq=v.seq, elem=v.keyv)], {}, node, env)
        self.err(node, "sorted(%r)" % (v,))

    def x_reversed(self, args, kwargs, node, env):
        v = args[0]
        if isinstance(v, NTV):
            v = ListV(list(v.values), "tuple")      # a named tuple is a tuple
        if isinstance(v, ListV) and not getattr(v, "tail", None):
            return ListV(list(reversed(v.items)), "list")
        self.err(node, "reversed(%r)" % (v,))

    def x_enumerate(self, args, kwargs, node, env):
        v = self.as_iterable(args[0], node)
        extra = set(kwargs) - {"start"}
        if extra or len(args) > 2:
            self.err(node, "enumerate() arguments")
        start = self.num(args[1] if len(args) == 2 else kwargs.get("start", Num(ep.const(0))), node)
        if isinstance(v, ListV) and not getattr(v, "tail", None):
            return ListV([ListV([Num(start + ep.const(i)), it], "tuple") for i, it in enumerate(v.items)], "list")
        if isinstance(v, SeqV) and v.kind in ("opaque", "family", "seqmap"):
            var, lo, hi, elem, sv = self.loop_binder(v, node)
            idx = Num(ep.sym(var) - lo + start) if sv is None else Num(ep.sym(var) + start)
            pair = ListV([idx, elem], "tuple")
            if sv is not None:
                return SeqV("seqmap", var=var, seq=sv, elem=pair)
            return SeqV("family", var=var, lo=lo, hi=hi, elem=pair)
        self.err(node, "enumerate(%r)" % (v,))

    def x_zip(self, args, kwargs, node, env):
        its = [self.as_iterable(a, node) for a in args]
        if all(isinstance(i, ListV) for i in its):
            n = min(len(i.items) for i in its)
            return ListV([ListV([i.items[k] for i in its], "tuple") for k in range(n)], "list")
        # sequences indexed by the same underlying user sequence (S itself, or [f(e) for e in S]) advance together
        bases = []
        for i in its:
            if isinstance(i, SeqV) and i.kind == "opaque":
                bases.append(i)
            elif isinstance(i, SeqV) and i.kind == "seqmap" and isinstance(i.seq, SeqV) and i.seq.kind == "opaque":
                bases.append(i.seq)
            else:
                bases = None
                break
        if bases and all(b.key() == bases[0].key() for b in bases):
            var = self.fresh_sym("k")
            elems = []
            for i in its:
                if i.kind == "opaque":
                    elems.append(self.seq_elem(i, ep.sym(var)))
                else:
                    elems.append(self.subst(i.elem, {i.var: ep.sym(var)}))
            return SeqV("seqmap", var=var, seq=bases[0], elem=ListV(elems, "tuple"))
        if all(isinstance(i, SeqV) and i.kind in ("opaque", "seqmap", "family") for i in its):
            lens = [self.seq_len(i) for i in its]
            if all(ep.equal(lens[0], l)[0] for l in lens[1:]):
                # positional pairing of sequences of the same length
                var = self.fresh_sym("z")
                elems = [self.seq_elem(i, ep.sym(var)) if i.kind != "family" else self.seq_elem(i, ep.sym(var) + i.lo) for i in its]
                return SeqV("family", var=var, lo=ep.const(0), hi=lens[0], elem=ListV(elems, "tuple"))
        self.err(node, "zip of symbolic sequences")

    def x_iter(self, args, kwargs, node, env):
        v = self.as_iterable(args[0], node)
        if isinstance(v, ListV):
            return IterV(v.items)
        self.err(node, "iter(%r)" % (v,))

    def x_next(self, args, kwargs, node, env):
        it = args[0]
        if isinstance(it, IterV):
            if it.pos < len(it.items):
                it.pos += 1
                return it.items[it.pos - 1]
            raise RaiseSignal(ExcV(ExtV("builtins.StopIteration"), []), node)
        self.err(node, "next(%r)" % (it,))

    def x_hasattr(self, args, kwargs, node, env):
        if not (isinstance(args[1], Const) and isinstance(args[1].v, str)):
            if isinstance(args[0], Const) and isinstance(args[0].v, str) and isinstance(args[1], (Opaque, InstV, FuncV, DerivV, PyObjV, Num)):
                # hasattr('name', obj): the attribute name is an object, not a string - Python raises TypeError
                raise RaiseSignal(ExcV(ExtV("builtins.TypeError"), [Const("hasattr(): attribute name must be string")]), node)
            self.err(node, "hasattr with non-constant name")
        r = self.hasattr(args[0], args[1].v)
        return Const(r) if isinstance(r, bool) else r

    def x_getattr(self, args, kwargs, node, env):
        if isinstance(args[1], Const) and not isinstance(args[1].v, str):
            raise RaiseSignal(ExcV(ExtV("builtins.TypeError"), [Const("attribute name must be string")]), node)
        if not (isinstance(args[1], Const) and isinstance(args[1].v, str)):
            self.err(node, "getattr with non-constant name")
        if len(args) == 3:
            h = self.hasattr(args[0], args[1].v)
            if h is False:
                return args[2]
            if h is not True:
                self.err(node, "getattr with default on symbolic attribute")
        return self.getattr(args[0], args[1].v, node)

    def x_frozenset(self, args, kwargs, node, env):
        return self.x_set(args, kwargs, node, env)

    def x_map(self, args, kwargs, node, env):
        if len(args) > 2:
            # map(f, xs, repeat(c), ...): the constants are extra arguments of every call
            its = [a for a in args[1:] if not (isinstance(a, PyObjV) and isinstance(a.obj, _Repeat))]
            if len(its) != 1 or kwargs:
                self.err(node, "map over several iterables")
            slots = [("it" if a is its[0] else a.obj.value) for a in args[1:]]
            f0 = args[0]
            inner = self

            class _Applied(object):
                def m___call__(self_, I, a, k):
                    _ = k
                    return inner.call(f0, [a[0] if sl == "it" else sl for sl in slots], {}, node, env)
            return self.x_map([PyObjV(_Applied()).as_callable(), its[0]], {}, node, env)
        if len(args) != 2:
            self.err(node, "map over several iterables")
        fn, seq = args[0], self.as_iterable(args[1], node)
        if isinstance(seq, ListV) and not getattr(seq, "tail", None):
            return ListV([self.call(fn, [x], {}, node, env) for x in seq.items], "list")
        if isinstance(seq, SeqV) and seq.kind in ("family", "seqmap", "opaque"):
            var, lo, hi, elem, seqv = self.loop_binder(seq, node)
            self.event_stack.append([])
            try:
                out = self.call(fn, [elem], {}, node, env)
            finally:
                evs = self.event_stack.pop()
            if evs:
                self.log_event(("loop", evs))
            if seqv is not None:
                return SeqV("seqmap", var=var, seq=seqv, elem=out)
            return SeqV("family", var=var, lo=lo, hi=hi, elem=out)
        self.err(node, "map over %r" % (seq,))

    def x_filter(self, args, kwargs, node, env):
        fn, seq = args[0], self.as_iterable(args[1], node)
        if isinstance(seq, ListV) and not getattr(seq, "tail", None):
            out = []
            for x in seq.items:
                t = self.truth(x if (isinstance(fn, Const) and fn.v is None) else self.call(fn, [x], {}, node, env))
                if not isinstance(t, bool):
                    self.err(node, "filter with a symbolic predicate")
                if t:
                    out.append(x)
            return ListV(out, "list")
        self.err(node, "filter over %r" % (seq,))

    def x_setattr(self, args, kwargs, node, env):
        if not (isinstance(args[1], Const) and isinstance(args[1].v, str)):
            self.err(node, "setattr with non-constant name")
        self.setattr(args[0], args[1].v, args[2], node)
        return NONE

    def x_isinstance(self, args, kwargs, node, env):
        v, c = args
        if isinstance(c, ListV) and c.kind == "tuple":
            res = [self.x_isinstance([v, ci], {}, node, env) for ci in c.items]
            if all(isinstance(r, Const) for r in res):
                return Const(any(r.v for r in res))
            self.err(node, "isinstance against a tuple with undecided members")
        if isinstance(v, ExcV):
            if isinstance(c, ClassV) and isinstance(v.cls, ClassV):
                return Const(v.cls.ci.is_subclass_of(c.ci))
            if isinstance(c, ClassV):
                return Const(False)
            if isinstance(c, ExtV):
                class _H(object):
                    type = None
                fake = ast.ExceptHandler(type=ast.Name(id="_t", ctx=ast.Load()), name=None, body=[])
                e2 = Env(parent=env, label=env.label if env is not None else "?")
                e2.vars["_t"] = c
                return Const(bool(self.handler_matches(fake, v, e2)))
        if isinstance(v, (Opaque, LookupV)) or (isinstance(v, InstV) and v.label is not None and not isinstance(c, ClassV)):
            r = self.assume(Cond("isinstance", v, c))
            return Const(r) if isinstance(r, bool) else r
        if isinstance(v, InstV) and isinstance(c, ClassV):
            return Const(v.ci.is_subclass_of(c.ci))
        if isinstance(c, ExtV) and c.name in ("builtins.float", "builtins.int"):
            return Const(isinstance(v, Num))
        if isinstance(c, ExtV) and c.name == "builtins.str":
            return Const(is_strlike(v))
        if isinstance(c, ExtV) and c.name in ("collections.abc.Callable", "collections.Callable", "typing.Callable"):
            return self.x_callable([v], {}, node, env)       # the ABC's subclass hook is 'has __call__'
        if isinstance(c, ExtV):
            # a value of a built-in type against a library class / ABC: decided by the library class itself
            samples = None
            if isinstance(v, Const) and isinstance(v.v, (str, bytes, bool, type(None))):
                samples = [v.v]
            elif is_strlike(v):
                samples = [""]
            elif isinstance(v, Num):
                samples = [0, 0.0]
            elif isinstance(v, ListV) and v.kind in ("list", "tuple", "set"):
                samples = [{"list": [], "tuple": (), "set": set()}[v.kind]]
            elif isinstance(v, DictV):
                samples = [{}]
            if samples is not None:
                cls_ = self.ext_object(c, node)
                if isinstance(cls_, type):
                    res = set(isinstance(x, cls_) for x in samples)
                    if len(res) == 1:
                        return Const(res.pop())
        self.err(node, "isinstance(%r, %r)" % (v, c))

    def ext_object(self, v, node):
        """the library object an external dotted name stands for (standard library and the environment's packages)"""
        import importlib
        parts = v.name.split(".")
        for i in range(len(parts), 0, -1):
            try:
                obj = importlib.import_module(".".join(parts[:i]))
            except ImportError:
                continue
            try:
                for a in parts[i:]:
                    obj = getattr(obj, a)
            except AttributeError:
                break
            return obj
        self.err(node, "external object %s cannot be inspected" % v.name)

    # -- functools.lru_cache / functools.cache: results remembered per argument tuple for the life of the process
    def memo_key(self, v):
        """how the cache's dictionary identifies an argument: values by value; objects by identity, except that a
        wrapt.ObjectProxy hashes and compares as the object it wraps"""
        is_proxy = getattr(self, "is_proxy", None)
        if is_proxy is not None and is_proxy(v):
            w = v.attrs.get("__wrapped__")
            if w is not None:
                return self.memo_key(w)
        if isinstance(v, InstV):
            return ("object", id(v))
        return v.key()

    def x_functools_lru_cache(self, args, kwargs, node, env):
        if len(args) == 1 and not kwargs and isinstance(args[0], FuncV):
            return PyObjV(_Memo(args[0]))                 # used bare: @lru_cache
        if len(args) > 2 or set(kwargs) - {"maxsize", "typed"}:
            self.err(node, "lru_cache arguments")
        _ = (args, kwargs)                                # eviction is not modelled: the cache is taken to be large enough
        return PyObjV(_MemoDecorator())

    def x_functools_cache(self, args, kwargs, node, env):
        if len(args) == 1 and not kwargs and isinstance(args[0], FuncV):
            return PyObjV(_Memo(args[0]))
        self.err(node, "functools.cache arguments")

    def x_hash(self, args, kwargs, node, env):
        """hash(x) for numbers and tuples of numbers is CPython's own deterministic value (hash(-1) == -2, hash(1.0) ==
        hash(1), tuple hashes combine member hashes); for anything else an uninterpreted function of the value"""
        if kwargs or len(args) != 1:
            self.err(node, "hash arguments")

        def concrete(v):
            if isinstance(v, Num) and v.const() is not None:
                c = v.const()
                return int(c) if c.denominator == 1 else float(c)
            if isinstance(v, ListV) and v.kind == "tuple" and not getattr(v, "tail", None):
                return tuple(concrete(x) for x in v.items)
            raise ValueError
        try:
            return Num(ep.const(hash(concrete(args[0]))))
        except ValueError:
            pass
        if isinstance(args[0], (ListV, DictV)) and getattr(args[0], "kind", "dict") in ("list", "set", "dict"):
            raise RaiseSignal(ExcV(ExtV("builtins.TypeError"), [Const("unhashable type")]), node)
        return Num(ep.app(("hash", args[0].key()), []))

    def x_object(self, args, kwargs, node, env):
        if args or kwargs:
            self.err(node, "object() takes no arguments")
        from .symeval import Sentinel
        return PyObjV(Sentinel())

    def x_callable(self, args, kwargs, node, env):
        v = args[0]
        if isinstance(v, (FuncV, DerivV, ClassV, NTClassV)):
            return TRUE
        if isinstance(v, ModV):
            return FALSE
        if isinstance(v, ExtV):
            return Const(callable(self.ext_object(v, node)))
        if isinstance(v, PyObjV):
            return Const(hasattr(v.obj, "m___call__"))
        if isinstance(v, InstV) and v.label is None:
            if v.ci.lookup("__call__") is not None:
                return TRUE
            from .model import ExternalClass
            ext = [c for c in v.ci.mro() if isinstance(c, ExternalClass) and c.name.split(".")[-1] != "object"]
            if not ext:
                return FALSE
            if any(c.name.split(".")[-1] == "partial" for c in ext):
                return TRUE
        if isinstance(v, (Num, Const, ListV, DictV, NTV)) or is_strlike(v):
            return FALSE
        if isinstance(v, (Opaque, LookupV, InstV, Phi)):
            r = self.assume(Cond("callable", v))
            return Const(r) if isinstance(r, bool) else r
        self.err(node, "callable(%r)" % (v,))

    def x_operator_index(self, args, kwargs, node, env):
        v = args[0]
        if isinstance(v, Num):
            c = v.const()
            if c is not None:
                if c.denominator == 1 and not v.inexact:
                    return v
                raise RaiseSignal(ExcV(ExtV("builtins.TypeError"), [Const("not an integer")]), node)
            if not v.inexact:
                return v        # a whole-number symbol
            self.err(node, "operator.index of a symbolic float")
        if isinstance(v, (Const, ListV, DictV)) or is_strlike(v):
            raise RaiseSignal(ExcV(ExtV("builtins.TypeError"), [Const("not an integer")]), node)
        if isinstance(v, Phi) and v.a is not None and v.b is not None:
            a = self.with_path(v.cond, True, lambda: self.x_operator_index([v.a], {}, node, env))
            b = self.with_path(v.cond, False, lambda: self.x_operator_index([v.b], {}, node, env))
            return make_phi(v.cond, a, b)
        if isinstance(v, (Opaque, LookupV)):
            return v        # an opaque count (e.g. the parser's nr, produced by int()): a whole number
        self.err(node, "operator.index(%r)" % (v,))

    def x_super(self, args, kwargs, node, env):
        # super() / super(Class, self)
        if args:
            cls, inst = args[0], args[1]
            if isinstance(cls, InstV) and cls.label is None:
                raise RaiseSignal(ExcV(ExtV("builtins.TypeError"), [Const("super() argument 1 must be a type")]), node)
            if not isinstance(cls, ClassV):
                self.err(node, "super() first argument")
            return SuperV(cls.ci, inst)
        e = env
        inst = None
        while e is not None:
            if "self" in e.vars:
                inst = e.vars["self"]
                break
            e = e.parent
        fi_label = env.label  # module:Class.method
        clsname = fi_label.split(":")[1].split(".")[0]
        ci = self.p.cls(env.find_module().name, clsname)
        return SuperV(ci, inst)

    def x_print(self, args, kwargs, node, env):
        f = kwargs.get("file")
        if f is None:
            f = self.stdout()
        sep = kwargs.get("sep", Const(" "))
        end = kwargs.get("end", Const("\n"))
        parts = []
        for i, a in enumerate(args):
            if i:
                parts.append(to_node(sep))
            parts.append(to_node(a) if is_strlike(a) else SFmt("s", a))
        parts.append(to_node(end))
        self.write_to(f, StrV(SCat(parts)), node)
        return NONE

    def x_sys_stdout_write(self, args, kwargs, node, env):
        if kwargs or len(args) != 1:
            self.err(node, "sys.stdout.write arguments")
        self.write_to(self.stdout(), args[0], node)
        return NONE

    def x_sys_stdout_writelines(self, args, kwargs, node, env):
        if kwargs or len(args) != 1:
            self.err(node, "sys.stdout.writelines arguments")
        b = self.stdout()
        h = getattr(self, "m_BufV_writelines", None)
        if h is None:
            self.err(node, "writelines")
        return h(b, [args[0]], {}, node)

    def x_sys_stderr_write(self, args, kwargs, node, env):
        if kwargs or len(args) != 1:
            self.err(node, "sys.stderr.write arguments")
        return NONE

    def stdout(self):
        b = self.__dict__.get("_stdout")
        if b is None:
            b = BufV("sys.stdout", is_file=True)
            self.__dict__["_stdout"] = b
        return b

    def write_to(self, f, s, node):
        if isinstance(f, BufV):
            m = getattr(f, "mode", None)
            if isinstance(m, Const) and isinstance(m.v, str) and not any(ch in m.v for ch in "wax+"):
                raise RaiseSignal(ExcV(ExtV("io.UnsupportedOperation"), [Const("not writable")]), node)
            f.pieces.append(to_node(s))
            if f.is_file:
                self.file_writes = self.__dict__.get("file_writes", 0) + 1
                self.log_event(("write", f.name))
            return
        if isinstance(f, Phi):
            self.err(node, "write to conditional stream")
        self.err(node, "write to %r" % (f,))

    def x_open(self, args, kwargs, node, env):
        if len(args) > 2 or set(kwargs) - {"mode", "encoding", "newline"}:
            self.err(node, "open() arguments")
        mode = args[1] if len(args) > 1 else kwargs.get("mode", Const("r"))
        b = BufV("open(%r)" % (args[0],), is_file=True)
        b.filename = args[0]
        b.mode = mode
        b.open_kwargs = dict(kwargs)
        return b

    def x_os_path_join(self, args, kwargs, node, env):
        import posixpath
        if kwargs or not args or not all(isinstance(a, Const) and isinstance(a.v, str) for a in args):
            self.err(node, "os.path.join of non-literal parts")
        return Const(posixpath.join(*[a.v for a in args]))

    def x_os_fspath(self, args, kwargs, node, env):
        if kwargs or len(args) != 1:
            self.err(node, "os.fspath arguments")
        if is_strlike(args[0]) or isinstance(args[0], Opaque):
            return args[0]          # str / bytes are returned unchanged; a path object stands for its own text
        raise RaiseSignal(ExcV(ExtV("builtins.TypeError"), [Const("expected str, bytes or os.PathLike object")]), node)

    def x_io_StringIO(self, args, kwargs, node, env):
        return BufV("StringIO#%d" % next(self.fresh))

    x_StringIO = x_io_StringIO

    def x_typing_NamedTuple(self, args, kwargs, node, env):
        """typing.NamedTuple('Name', [(field, type), ...])"""
        if kwargs or len(args) != 2 or not isinstance(args[0], Const):
            self.err(node, "typing.NamedTuple arguments")
        spec = self.as_iterable(args[1], node)
        names = []
        for it in getattr(spec, "items", []):
            pair = self.as_iterable(it, node)
            if not (isinstance(pair, ListV) and len(pair.items) == 2 and isinstance(pair.items[0], Const)):
                self.err(node, "typing.NamedTuple field specification")
            names.append(pair.items[0].v)
        if not names:
            self.err(node, "typing.NamedTuple without literal fields")
        return NTClassV(args[0].v, names)

    def x_collections_namedtuple(self, args, kwargs, node, env):
        name = args[0]
        fields = args[1]
        if isinstance(fields, ListV) and all(isinstance(f, Const) for f in fields.items):
            return NTClassV(name.v if isinstance(name, Const) else repr(name), [f.v for f in fields.items])
        self.err(node, "namedtuple with symbolic fields")

    # -- module namespaces: vars(module), module.__dict__, globals()
    def module_names(self, module):
        """every name bound in the module: static bindings, public names of star imports, names stored through globals()"""
        self.ensure_module_init(module)
        names = set(module.bindings)
        for t in module.star_imports:
            tm = self.p.modules.get(t)
            if tm is not None:
                names |= set(n for n in tm.bindings if not n.startswith("_"))
        names |= set(n for (m, n) in self.module_cache if m == module.name)
        return sorted(names)

    def module_store(self, module, idx, val, node):
        if not (isinstance(idx, Const) and isinstance(idx.v, str)):
            self.err(node, "module namespace store under a non-literal name")
        if idx.v in module.bindings:
            self.err(node, "the name %r is bound both by a statement of %s and through its namespace dictionary" % (idx.v, module.name))
        self.module_cache[(module.name, idx.v)] = val

    def module_dict(self, module, node):
        d = DictV()
        for nm in self.module_names(module):
            v = self.module_global(module, nm, node)
            if v is not None:
                d.items[Const(nm).key()] = (Const(nm), v)
        d.module = module
        return d

    def x_vars(self, args, kwargs, node, env):
        v = args[0] if args else None
        if isinstance(v, ModV) and v.module is not None:
            return self.module_dict(v.module, node)
        self.err(node, "vars(%r)" % (v,))

    def x_globals(self, args, kwargs, node, env):
        m = env.find_module()
        if m is None or args:
            self.err(node, "globals() outside a module of the package")
        if m.name not in self.__dict__.get("_modules_initing", ()):
            return self.module_dict(m, node)
        # called while the module body runs: a dictionary whose stores bind module names (reads of it see those only)
        d = DictV()
        d.module = m
        return d

    def x_inspect_getmembers(self, args, kwargs, node, env):
        """members of a repo module (sorted by name) satisfying a predicate that is evaluated abstractly;
        only module-level callables (instances with __call__, functions) are considered"""
        mod, pred = args[0], args[1]
        if not (isinstance(mod, ModV) and mod.module is not None):
            self.err(node, "inspect.getmembers of %r" % (mod,))
        names = self.module_names(mod.module)
        out = []
        pname = pred.name if isinstance(pred, ExtV) else None
        for nm in sorted(names):
            b = mod.module.bindings.get(nm)
            v = self.module_global(mod.module, nm, node)
            if v is None:
                continue
            if pname == "inspect.isfunction":
                ok = isinstance(v, FuncV)
            elif isinstance(pred, FuncV):
                r = self.truth(self.call(pred, [v], {}, node, env))
                if not isinstance(r, bool):
                    self.err(node, "member predicate undecided for %s.%s" % (mod.module.name, nm))
                ok = r
            else:
                self.err(node, "inspect.getmembers predicate %r" % (pred,))
            if ok:
                out.append(ListV([Const(nm), v], "tuple"))
        return ListV(out, "list")

    def x_inspect_signature(self, args, kwargs, node, env):
        """inspect.signature(callable) reproduced from the source's own parameter lists"""
        f = args[0]
        if isinstance(f, InstV):
            fi = f.ci.lookup("__call__")
            if fi is None:
                self.err(node, "signature of a non-callable instance")
            a, skip = fi.node.args, 1
        elif isinstance(f, FuncV):
            a, skip = f.fi.node.args, (1 if f.selfv is not None else 0)
        else:
            self.err(node, "inspect.signature(%r)" % (f,))
        params = []
        for x in (a.posonlyargs + a.args)[skip:]:
            params.append((x.arg, "POSITIONAL_OR_KEYWORD"))
        if a.vararg is not None:
            params.append((a.vararg.arg, "VAR_POSITIONAL"))
        for x in a.kwonlyargs:
            params.append((x.arg, "KEYWORD_ONLY"))
        if a.kwarg is not None:
            params.append((a.kwarg.arg, "VAR_KEYWORD"))
        d = DictV()
        for nm, kind in params:
            d.items[Const(nm).key()] = (Const(nm), PyObjV(_ParamModel(nm, kind)))
        return PyObjV(_SigModel(d))

    x_funcsigs_signature = x_inspect_signature

    def x_inspect_isclass(self, args, kwargs, node, env):
        if isinstance(args[0], ExtV):
            import inspect as _inspect
            return Const(_inspect.isclass(self.ext_object(args[0], node)))
        return Const(isinstance(args[0], (ClassV, LocalClassV, NTClassV)))

    def x_inspect_isfunction(self, args, kwargs, node, env):
        return Const(isinstance(args[0], FuncV))

    def x_collections_OrderedDict(self, args, kwargs, node, env):
        return self.x_dict(args, kwargs, node, env)

    def x_itertools_chain_from_iterable(self, args, kwargs, node, env):
        outer = self.as_iterable(args[0], node)
        if isinstance(outer, SeqV) and outer.kind in ("seqmap", "family"):
            # one inner sequence per element of a symbolic sequence: the concatenation, element by element
            self.event_stack.append([])
            try:
                inner = self.as_iterable(outer.elem, node)
            finally:
                evs = self.event_stack.pop()
            if evs:
                self.log_event(("loop", evs))
            if isinstance(inner, ListV) and getattr(inner, "tail", None):
                inner = self.as_iterable(inner, node)
            parts = list(inner.parts) if isinstance(inner, SeqV) and inner.kind == "concat" else [inner]
            if outer.kind == "seqmap":
                return SeqV("nested", var=outer.var, lo=ep.const(0), hi=self.seq_len(outer.seq), seq=outer.seq, parts=parts)
            return SeqV("nested", var=outer.var, lo=outer.lo, hi=outer.hi, seq=None, parts=parts)
        if not isinstance(outer, ListV):
            self.err(node, "chain.from_iterable over a symbolic sequence")
        subs = [self.as_iterable(sub, node) for sub in outer.items]
        if all(isinstance(q, ListV) and not getattr(q, "tail", None) for q in subs):
            out = []
            for q in subs:
                out.extend(q.items)
            return ListV(out, "list")
        acc = ListV([], "list")
        for q in subs:
            if isinstance(q, ListV) and getattr(q, "tail", None):
                q = self.as_iterable(q, node)
            if not isinstance(q, (ListV, SeqV)):
                self.err(node, "chain over %r" % (q,))
            acc = seq_concat(acc, q)
        return acc

    def x_itertools_chain(self, args, kwargs, node, env):
        return self.x_itertools_chain_from_iterable([ListV(list(args), "list")], kwargs, node, env)

    def x_itertools_permutations(self, args, kwargs, node, env):
        import itertools as _it
        seq = self.as_iterable(args[0], node)
        r = int(args[1].const()) if len(args) > 1 else None
        if not isinstance(seq, ListV):
            self.err(node, "permutations of a symbolic sequence")
        return ListV([ListV(list(p), "tuple") for p in _it.permutations(seq.items, r)], "list")

    def x_itertools_combinations(self, args, kwargs, node, env):
        import itertools as _it
        seq = self.as_iterable(args[0], node)
        if not isinstance(seq, ListV):
            self.err(node, "combinations of a symbolic sequence")
        return ListV([ListV(list(p), "tuple") for p in _it.combinations(seq.items, int(args[1].const()))], "list")

    def x_csv_writer(self, args, kwargs, node, env):
        """csv.writer(f, lineterminator=...) for rows of plain fields (default 'excel' dialect: ',' delimiter, '\\r\\n'
        terminator, minimal quoting - fields that would need quoting are outside the model)"""
        if len(args) != 1 or set(kwargs) - {"lineterminator"}:
            self.err(node, "csv.writer arguments")
        lt = kwargs.get("lineterminator", Const("\r\n"))
        if not (isinstance(lt, Const) and isinstance(lt.v, str)):
            self.err(node, "csv.writer lineterminator")
        return PyObjV(_CsvWriter(args[0], lt.v))

    def x_collections_defaultdict(self, args, kwargs, node, env):
        if kwargs or len(args) > 1:
            self.err(node, "collections.defaultdict with initial items")
        d = DictV()
        d.default_factory = args[0] if args and not (isinstance(args[0], Const) and args[0].v is None) else None
        return d

    def x_collections_Counter(self, args, kwargs, node, env):
        """Counter(iterable of concrete hashable items): a dictionary item -> count in first-occurrence order; a missing
        item counts 0 (Counter.__missing__)"""
        if kwargs or len(args) > 1:
            self.err(node, "collections.Counter arguments")
        d = DictV()
        d.default_factory = ExtV("builtins.int")
        d.counter = True
        if args:
            seq = self.as_iterable(args[0], node)
            if not (isinstance(seq, ListV) and not getattr(seq, "tail", None)) or not all(concrete_key(x) for x in seq.items):
                self.err(node, "collections.Counter over %r" % (args[0],))
            for x in seq.items:
                k = x.key()
                n = d.items[k][1].const() if k in d.items else 0
                d.items[k] = (x, Num(ep.const(n + 1)))
        return d

    def x_type(self, args, kwargs, node, env):
        if kwargs or len(args) != 1:
            self.err(node, "type() with %d arguments" % len(args))
        v = args[0]
        if isinstance(v, InstV) and v.label is None:
            return ClassV(v.ci)
        if is_strlike(v):
            return ExtV("builtins.str")
        if isinstance(v, Const) and isinstance(v.v, bool):
            return ExtV("builtins.bool")
        if isinstance(v, Const) and v.v is None:
            return ExtV("builtins.NoneType")
        if isinstance(v, ListV):
            return ExtV("builtins." + {"list": "list", "tuple": "tuple", "set": "set"}.get(v.kind, "list"))
        if isinstance(v, DictV):
            return ExtV("builtins.dict")
        if isinstance(v, NTV):
            return v.cls
        if isinstance(v, ExcV):
            return v.cls
        self.err(node, "type(%r)" % (v,))

    def x_json_dumps(self, args, kwargs, node, env):
        """json.dumps(obj, ...): a string that is a function of the object and the formatting options (its text is not modelled)"""
        if len(args) != 1:
            self.err(node, "json.dumps arguments")
        kw = tuple(sorted((k, v.key()) for k, v in kwargs.items()))
        return StrV(SFmt("s", Opaque(("json.dumps", args[0].key(), kw))))

    # -- contextlib
    def x_contextlib_closing(self, args, kwargs, node, env):
        if kwargs or len(args) != 1:
            self.err(node, "contextlib.closing arguments")
        return PyObjV(_Closing(args[0]))

    def x_contextlib_ExitStack(self, args, kwargs, node, env):
        if args or kwargs:
            self.err(node, "contextlib.ExitStack arguments")
        return PyObjV(_ExitStack())

    def x_contextlib_contextmanager(self, args, kwargs, node, env):
        if kwargs or len(args) != 1 or not isinstance(args[0], FuncV):
            self.err(node, "contextlib.contextmanager applied to %r" % (args,))
        return PyObjV(_CtxFactory(args[0]))

    def x_functools_wraps(self, args, kwargs, node, env):
        """functools.wraps(f): a decorator that copies f's name and documentation onto the wrapper and returns the wrapper"""
        if kwargs or len(args) != 1:
            self.err(node, "functools.wraps arguments")
        return PyObjV(_Wraps(args[0]))

    def x_property(self, args, kwargs, node, env):
        from .symeval_ops import PropertyV
        fget = args[0] if args else kwargs.get("fget")
        fset = args[1] if len(args) > 1 else kwargs.get("fset")
        if len(args) > 2 or set(kwargs) - {"fget", "fset", "doc"} or "doc" in kwargs and False:
            self.err(node, "property() arguments")
        _ = kwargs
        return PropertyV(fget if not (isinstance(fget, Const) and fget.v is None) else None, fset)

    def x_staticmethod(self, args, kwargs, node, env):
        return StaticV(args[0])

    def x_classmethod(self, args, kwargs, node, env):
        return ClassMethodV(args[0])

    def x_functools_partial(self, args, kwargs, node, env):
        if not args:
            self.err(node, "functools.partial without a callable")
        return PyObjV(PartialV(args[0], args[1:], kwargs))

    def x_operator_attrgetter(self, args, kwargs, node, env):
        if len(args) != 1 or not (isinstance(args[0], Const) and isinstance(args[0].v, str)):
            self.err(node, "operator.attrgetter with several / non-constant names")
        return PyObjV(AttrGetter("attr", args[0].v))

    def x_operator_itemgetter(self, args, kwargs, node, env):
        if len(args) != 1:
            self.err(node, "operator.itemgetter with several items")
        return PyObjV(AttrGetter("item", args[0]))

    def _operator_binop(opcls):
        def f(self, args, kwargs, node, env):
            if kwargs or len(args) != 2:
                self.err(node, "operator function arguments")
            return self.binop(opcls(), args[0], args[1], node)
        return f
    x_operator_mul = _operator_binop(ast.Mult)
    x_operator_add = _operator_binop(ast.Add)
    x_operator_sub = _operator_binop(ast.Sub)
    x_operator_truediv = _operator_binop(ast.Div)
    x_operator_floordiv = _operator_binop(ast.FloorDiv)
    x_operator_mod = _operator_binop(ast.Mod)
    x_operator_pow = _operator_binop(ast.Pow)
    del _operator_binop

    def x_operator_neg(self, args, kwargs, node, env):
        if kwargs or len(args) != 1:
            self.err(node, "operator.neg arguments")
        return Num(-self.num(args[0], node), getattr(args[0], "inexact", False))

    def x_itertools_repeat(self, args, kwargs, node, env):
        if len(args) == 2 and not kwargs or (len(args) == 1 and set(kwargs) == {"times"}):
            # repeat(x, n): n copies of x
            n = self.num(args[1] if len(args) == 2 else kwargs["times"], node)
            c = n.as_const()
            if c is not None and c.denominator == 1 and c <= 16:
                return ListV([args[0]] * max(0, int(c)), "list")
            var = self.fresh_sym("k")
            return SeqV("family", var=var, lo=ep.const(0), hi=n, elem=args[0])
        if kwargs or len(args) != 1:
            self.err(node, "itertools.repeat arguments")
        return PyObjV(_Repeat(args[0]))

    def x_itertools_groupby(self, args, kwargs, node, env):
        """itertools.groupby(xs, key): runs of ADJACENT items with equal keys (only adjacent ones - the documented behaviour),
        for a list of known items whose keys compare definitely; each group is delivered as a list"""
        key = kwargs.get("key", args[1] if len(args) > 1 else None)
        if len(args) not in (1, 2) or set(kwargs) - {"key"}:
            self.err(node, "itertools.groupby arguments")
        seq = self.as_iterable(args[0], node)
        if not (isinstance(seq, ListV) and not getattr(seq, "tail", None)):
            self.err(node, "itertools.groupby over a symbolic sequence")
        groups = []
        for it in seq.items:
            k = it if key is None or (isinstance(key, Const) and key.v is None) else self.call(key, [it], {}, node, env)
            if groups:
                same = self.equals(groups[-1][0], k, node)
                if isinstance(same, Cond):
                    same = self.assume(same)
                if not isinstance(same, bool):
                    self.err(node, "itertools.groupby: equality of neighbouring keys %r and %r is not decided" % (groups[-1][0], k))
                if same:
                    groups[-1][1].append(it)
                    continue
            groups.append((k, [it]))
        return ListV([ListV([k, ListV(items, "list")], "tuple") for k, items in groups], "list")

    def x_itertools_product(self, args, kwargs, node, env):
        import itertools as _it
        rep = kwargs.get("repeat")
        if set(kwargs) - {"repeat"}:
            self.err(node, "itertools.product keyword arguments")
        if rep is not None:
            c = rep.const() if isinstance(rep, Num) else None
            if c is None or c.denominator != 1 or c < 1:
                self.err(node, "itertools.product(repeat=%r)" % (rep,))
            args = list(args) * int(c)
            _ = kwargs
        seqs = [self.as_iterable(a, node) for a in args]
        if not all(isinstance(q, ListV) and not getattr(q, "tail", None) for q in seqs):
            self.err(node, "itertools.product of symbolic sequences (outside a for statement)")
        return ListV([ListV(list(p), "tuple") for p in _it.product(*[q.items for q in seqs])], "list")

    def x_functools_reduce(self, args, kwargs, node, env):
        fn, seq = args[0], self.as_iterable(args[1], node)
        if not isinstance(seq, ListV) or not seq.items:
            self.err(node, "reduce over symbolic sequence")
        acc = seq.items[0]
        for it in seq.items[1:]:
            acc = self.call(fn, [acc, it], {}, node, env)
        return acc

    def x_functools_cmp_to_key(self, args, kwargs, node, env):
        return CmpKeyV(args[0])

    def x_os_linesep_join(self, args, kwargs, node, env):
        return self.join(Const("\n"), args[0], node)

    # ------------------------------------------------------------ bound methods
    def call_bound(self, bb, args, kwargs, node):
        base, name = bb.base, bb.name
        if isinstance(base, LoggerV):
            return base if name == "getChild" else NONE
        if isinstance(base, LookupV):
            return self.lookup_call(base, name, args, node)
        h = getattr(self, "m_%s_%s" % (type(base).__name__, name), None)
        if h is not None:
            ig = modelguard.unread(h, args, kwargs)
            if ig is not None:
                self.err(node, "model of %s.%s does not cover %s" % (type(base).__name__, name, ig))
            return h(base, args, kwargs, node)
        if isinstance(base, FuncV) and name == "__get__":
            return FuncV(base.fi, base.closure, args[0])
        if is_strlike(base):
            return self.str_method(base, name, args, kwargs, node)
        self.err(node, "method %s of %r" % (name, base))

    def str_method(self, base, name, args, kwargs, node):
        if name == "format":
            return self.str_format(base, args, kwargs, node)
        if name == "join":
            return self.join(base, args[0], node)
        if isinstance(base, Const) and all(isinstance(a, Const) or (isinstance(a, Num) and a.const() is not None) for a in args):
            pyargs = [a.v if isinstance(a, Const) else int(a.const()) for a in args]
            try:
                r = getattr(base.v, name)(*pyargs)
            except (TypeError, ValueError, IndexError) as e:
                # the concrete evaluation is Python's own: so is its refusal
                raise RaiseSignal(ExcV(ExtV("builtins." + type(e).__name__), [Const(str(e))]), node)
            except Exception as e:
                self.err(node, "str.%s failed: %s" % (name, e))
            if isinstance(r, str):
                return Const(r)
            if isinstance(r, bool):
                return Const(r)
            if isinstance(r, list):
                return ListV([Const(x) for x in r], "list")
            if isinstance(r, tuple):
                return ListV([Const(x) for x in r], "tuple")
            if isinstance(r, int):
                return Num(ep.const(r))
            self.err(node, "str.%s returned %r" % (name, type(r).__name__))
        if name in ("strip", "lower", "upper", "rstrip", "lstrip", "replace"):
            return StrV(SFmt("s", Opaque((name, base.key()) + tuple(a.key() for a in args))))
        self.err(node, "str method %s on symbolic string" % name)

    # ListV
    def m_ListV_append(self, base, args, kwargs, node):
        base.items.append(args[0])
        return NONE

    def m_ListV_extend(self, base, args, kwargs, node):
        v = args[0]
        if isinstance(v, ListV):
            base.items.extend(v.items)
            return NONE
        # becomes symbolic: handled by the caller through ('become', ...)
        raise BecomeSignal(base, seq_concat(base, self.as_iterable(v, node)))

    def m_ListV_sort(self, base, args, kwargs, node):
        if kwargs:
            k = kwargs.get("key")
            if isinstance(k, CmpKeyV) and set(kwargs) == {"key"}:
                import functools

                def cmp(a, b):
                    r = self.call(k.fn, [a, b], {}, node)
                    c = r.const() if isinstance(r, Num) else None
                    if c is None:
                        raise AnalysisError("comparator result is not concrete: %r" % (r,))
                    return int(c)
                base.items[:] = sorted(base.items, key=functools.cmp_to_key(cmp))
                return NONE
            if k is not None and set(kwargs) <= {"key", "reverse"} and not getattr(base, "tail", None):
                # an ordinary key function on a list of known items: sorted by the keys when these are concrete
                rev = kwargs.get("reverse")
                if rev is None or isinstance(rev, Const):
                    try:
                        keys = [_concrete_key(self.call(k, [it], {}, node)) for it in base.items]
                    except AnalysisError:
                        keys = [None]
                    if all(kk is not None for kk in keys):
                        try:
                            order = sorted(range(len(keys)), key=lambda j: keys[j], reverse=bool(rev.v) if rev is not None else False)
                            base.items[:] = [base.items[j] for j in order]
                            return NONE
                        except TypeError:
                            pass
            raise BecomeSignal(base, Opaque(("sorted_by_key", base.key())))
        s = self.x_sorted([base], {}, node, None)
        if isinstance(s, ListV):
            base.items[:] = s.items
            return NONE
        raise BecomeSignal(base, s)

    def m_ListV_index(self, base, args, kwargs, node):
        for i, it in enumerate(base.items):
            if self.equals(args[0], it, node) is True:
                return Num(ep.const(i))
        self.err(node, "list.index not decidable")

    def m_ListV_add(self, base, args, kwargs, node):
        k = args[0].key()
        if all(i.key() != k for i in base.items):
            base.items.append(args[0])
        return NONE

    def m_ListV_copy(self, base, args, kwargs, node):
        return ListV(list(base.items), base.kind)

    # set algebra on concrete sets (members compared by value)
    def _set_operand(self, v, node):
        o = self.as_iterable(v, node)
        if not (isinstance(o, ListV) and not getattr(o, "tail", None)):
            self.err(node, "set operation with %r" % (v,))
        return dict((x.key(), x) for x in o.items)

    def _need_set(self, base, node, what):
        if base.kind != "set":
            raise RaiseSignal(ExcV(ExtV("builtins.AttributeError"), [Const("'%s' object has no attribute '%s'" % (base.kind, what))]), node)

    def m_ListV_issubset(self, base, args, kwargs, node):
        self._need_set(base, node, "issubset")
        other = self._set_operand(args[0], node)
        return Const(all(x.key() in other for x in base.items))

    def m_ListV_issuperset(self, base, args, kwargs, node):
        self._need_set(base, node, "issuperset")
        mine = set(x.key() for x in base.items)
        return Const(all(k in mine for k in self._set_operand(args[0], node)))

    def m_ListV_isdisjoint(self, base, args, kwargs, node):
        self._need_set(base, node, "isdisjoint")
        other = self._set_operand(args[0], node)
        return Const(not any(x.key() in other for x in base.items))

    def m_ListV_intersection(self, base, args, kwargs, node):
        self._need_set(base, node, "intersection")
        items = list(base.items)
        for a in args:
            other = self._set_operand(a, node)
            items = [x for x in items if x.key() in other]
        return ListV(items, "set")

    def m_ListV_union(self, base, args, kwargs, node):
        self._need_set(base, node, "union")
        seen = dict((x.key(), x) for x in base.items)
        for a in args:
            for k, x in self._set_operand(a, node).items():
                seen.setdefault(k, x)
        return ListV(list(seen.values()), "set")

    def m_ListV_difference(self, base, args, kwargs, node):
        self._need_set(base, node, "difference")
        items = list(base.items)
        for a in args:
            other = self._set_operand(a, node)
            items = [x for x in items if x.key() not in other]
        return ListV(items, "set")

    def m_ListV_symmetric_difference(self, base, args, kwargs, node):
        self._need_set(base, node, "symmetric_difference")
        other = self._set_operand(args[0], node)
        mine = dict((x.key(), x) for x in base.items)
        return ListV([x for k, x in mine.items() if k not in other] + [x for k, x in other.items() if k not in mine], "set")

    def m_ListV_discard(self, base, args, kwargs, node):
        self._need_set(base, node, "discard")
        base.items[:] = [x for x in base.items if x.key() != args[0].key()]
        return NONE

    def m_ListV_update(self, base, args, kwargs, node):
        self._need_set(base, node, "update")
        for a in args:
            for k, x in self._set_operand(a, node).items():
                if all(i.key() != k for i in base.items):
                    base.items.append(x)
        return NONE

    def m_ListV_count(self, base, args, kwargs, node):
        return Num(ep.const(sum(1 for i in base.items if i.key() == args[0].key())))

    # SeqV (append to a sequence that already became symbolic)
    def m_SeqV_sort(self, base, args, kwargs, node):
        """xs.sort(...) of a symbolic sequence: xs becomes sorted(xs, ...)"""
        if args:
            self.err(node, "sort with positional arguments")
        raise BecomeSignal(base, self.x_sorted([base], kwargs, node, None))

    def m_SeqV_append(self, base, args, kwargs, node):
        raise BecomeSignal(base, seq_concat(base, ListV([args[0]], "list")))

    def m_SeqV_extend(self, base, args, kwargs, node):
        raise BecomeSignal(base, seq_concat(base, self.as_iterable(args[0], node)))

    # DictV
    def m_DictV_get(self, base, args, kwargs, node):
        k = args[0].key()
        if k in base.items:
            return base.items[k][1]
        default = args[1] if len(args) > 1 else NONE
        if concrete_key(args[0]) and all(concrete_key(kk) for kk, _ in base.items.values()):
            return default
        kind, res = self.dict_lookup(base, args[0], node)
        if kind == "hit":
            return res
        if kind == "miss":
            return default
        out = default
        for c, v in reversed(res):
            out = make_phi(c, v, out)
        return out

    def m_DictV_setdefault(self, base, args, kwargs, node):
        k = args[0].key()
        if k not in base.items:
            base.items[k] = (args[0], args[1] if len(args) > 1 else NONE)
        return base.items[k][1]

    def m_DictV_keys(self, base, args, kwargs, node):
        return ListV([k for k, _ in base.items.values()], "list")

    def m_DictV_values(self, base, args, kwargs, node):
        return ListV([v for _, v in base.items.values()], "list")

    def m_DictV_items(self, base, args, kwargs, node):
        return ListV([ListV([k, v], "tuple") for k, v in base.items.values()], "list")

    def m_DictV_update(self, base, args, kwargs, node):
        src = args[0]
        if isinstance(src, DictV):
            base.items.update(src.items)
            return NONE
        self.err(node, "dict.update(%r)" % (src,))

    def m_DictV_copy(self, base, args, kwargs, node):
        d = DictV()
        d.items = dict(base.items)
        return d

    # LoopDictV
    def m_LoopDictV_get(self, base, args, kwargs, node):
        hit = self.loopdict_direct(base, args[0])
        if hit is not None:
            return hit
        return LookupV(base, args[0], args[1] if len(args) > 1 else NONE)

    def m_LoopDictV_keys(self, base, args, kwargs, node):
        return SeqV("seqmap", var=base.var, seq=base.seq, elem=base.keyv)

    def m_LoopDictV_values(self, base, args, kwargs, node):
        return SeqV("seqmap", var=base.var, seq=base.seq, elem=base.valv)

    def m_LoopDictV_items(self, base, args, kwargs, node):
        return SeqV("seqmap", var=base.var, seq=base.seq, elem=ListV([base.keyv, base.valv], "tuple"))

    def loopdict_direct(self, ld, query):
        """{key(e): val(e) for e in S}[key(S[j])] = val(S[j])  (keys of distinct elements are distinct)"""
        b = _unify(ld.keyv.key(), query.key(), ld.var)
        if b is None:
            return None
        return self.subst(ld.valv, {ld.var: b})

    # Opaque dict-likes
    def m_Opaque_dummy(self, base, args, kwargs, node):
        return NONE

    # BufV
    def m_BufV_write(self, base, args, kwargs, node):
        self.write_to(base, args[0], node)
        return NONE

    def m_BufV_getvalue(self, base, args, kwargs, node):
        return StrV(SCat(list(base.pieces)))

    def m_BufV_close(self, base, args, kwargs, node):
        return NONE

    def m_BufV_read(self, base, args, kwargs, node):
        # reading back a file of the run: only a workbook saved under this very name (openpyxl model) has known content
        mode = getattr(base, "mode", None)
        wb = self.__dict__.get("_saved_workbooks", {}).get(base.filename.key()) if getattr(base, "filename", None) is not None else None
        if args or kwargs or wb is None or not (isinstance(mode, Const) and isinstance(mode.v, str) and mode.v.startswith("r")):
            self.err(node, "read() of %r" % (base,))
        if "b" not in mode.v:
            raise RaiseSignal(ExcV(ExtV("builtins.UnicodeDecodeError"), [Const("a workbook is not text")]), node)
        if getattr(base, "was_read", False):
            return Const("")
        base.was_read = True
        return StrV(SFmt("s", Opaque(("saved workbook bytes",))))

    m_BufV_flush = m_BufV_close
    m_BufV___enter__ = lambda self, base, args, kwargs, node: base
    m_BufV___exit__ = m_BufV_close

    # NTV
    def m_NTV__replace(self, base, args, kwargs, node):
        vals = list(base.values)
        for k, v in kwargs.items():
            if k not in base.cls.fields:
                raise RaiseSignal(ExcV(ExtV("builtins.ValueError"), [Const(k)]), node)
            vals[base.cls.fields.index(k)] = v
        return NTV(base.cls, vals)

    def m_NTV__asdict(self, base, args, kwargs, node):
        d = DictV()
        for f, v in zip(base.cls.fields, base.values):
            d.items[Const(f).key()] = (Const(f), v)
        return d

    # LookupV: method call / attribute mapped over found element and default
    def lookup_fkey(self, lk):
        ld = lk.ld
        return ("lookup", ld.seq.key(), self.subst(ld.keyv, {ld.var: ep.sym("@e")}).key(), lk.query.key())

    def lookup_call(self, lk, name, args, node):
        ld = lk.ld
        found = self.call(self.getattr(ld.valv, name, node), args, {}, node)
        if lk.default is None:
            dflt = None
        else:
            dflt = self.call(self.getattr(lk.default, name, node), args, {}, node)
        fnum = ep.substitute(self.num(found, node), {ld.var: ep.sym("@e")})
        a = [fnum]
        if dflt is not None:
            a.append(self.num(dflt, node))
        return Num(ep.app(self.lookup_fkey(lk), a))

    def lookup_attr(self, lk, name, node):
        ld = lk.ld
        found = self.subst(self.getattr(ld.valv, name, node), {ld.var: ep.sym("@e")})
        dflt = self.getattr(lk.default, name, node) if lk.default is not None else None
        return Opaque(("lookupattr", self.lookup_fkey(lk), found.key(), dflt.key() if dflt is not None else None))


def _concrete_key(v):
    if isinstance(v, Const) and isinstance(v.v, (str, bool)):
        return v.v
    if isinstance(v, Num) and v.const() is not None:
        return v.const()
    if isinstance(v, ListV):
        ks = [_concrete_key(i) for i in v.items]
        return tuple(ks) if all(k is not None for k in ks) else None
    return None


def _unify(pattern, target, var):
    """match nested key tuples; the pattern's occurrences of sym(var) bind to an RF of the target"""
    binding = [None]

    def go(p, t):
        if isinstance(p, ep.RF):
            if not isinstance(t, ep.RF):
                return False
            if ep.equal(p, ep.sym(var))[0]:
                if binding[0] is None:
                    binding[0] = t
                    return True
                return ep.equal(binding[0], t)[0]
            if p.depends_on(var):
                return False
            return ep.equal(p, t)[0]
        if isinstance(p, tuple):
            return isinstance(t, tuple) and len(p) == len(t) and all(go(a, b) for a, b in zip(p, t))
        return p == t
    if go(pattern, target) and binding[0] is not None:
        return binding[0]
    return None


class BecomeSignal(Exception):
    """a mutable concrete container turned symbolic; the statement executor
    rebinds every variable that referred to it"""
    def __init__(self, old, new):
        self.old = old
        self.new = new


class _ParamModel(object):
    def __init__(self, name, kind):
        self.name = name
        self.kind = kind

    def get_name(self, I):
        return Const(self.name)

    def get_kind(self, I):
        return ExtV("inspect.Parameter." + self.kind)


class _SigModel(object):
    def __init__(self, params):
        self.params = params

    def get_parameters(self, I):
        return self.params


class CmpKeyV(V):
    def __init__(self, fn):
        self.fn = fn

    def key(self):
        return ("cmpkey", self.fn.key())

    def __deepcopy__(self, memo):
        return self


class LoggerV(V):
    def key(self):
        return ("logger",)

    def __deepcopy__(self, memo):
        return self


class _Memo(object):
    """a function wrapped by functools.lru_cache"""
    def __init__(self, fn):
        self.fn = fn
        self.memo = {}

    def m___call__(self, I, args, kwargs):
        key = (tuple(I.memo_key(a) for a in args), tuple(sorted((k, I.memo_key(v)) for k, v in kwargs.items())))
        if key not in self.memo:
            self.memo[key] = I.call(self.fn, list(args), dict(kwargs))
        return self.memo[key]

    def m_cache_clear(self, I, args, kwargs):
        if args or kwargs:
            raise AnalysisError("cache_clear arguments")
        self.memo.clear()
        return NONE


class _Repeat(object):
    """itertools.repeat(x): x for ever"""
    def __init__(self, value):
        self.value = value


class _Closing(object):
    """contextlib.closing(thing): the with-statement binds thing itself and calls thing.close() at the end
    (closing a StringIO / file afterwards does not change what was written)"""
    def __init__(self, thing):
        self.thing = thing

    def enter(self, I):
        return self.thing

    def exit(self, I):
        if not isinstance(self.thing, BufV):
            I.call(I.getattr(self.thing, "close", None), [], {}, None)


class _ExitStack(object):
    def __init__(self):
        self.entered = []

    def enter(self, I):
        return PyObjV(self)

    def exit(self, I):
        for o in reversed(self.entered):
            o.exit(I)
        self.entered = []

    def m_enter_context(self, I, args, kwargs):
        if kwargs or len(args) != 1:
            raise AnalysisError("ExitStack.enter_context arguments")
        cm = args[0]
        if isinstance(cm, BufV):
            return cm
        if isinstance(cm, PyObjV) and hasattr(cm.obj, "enter") and not hasattr(cm.obj, "run_with"):
            self.entered.append(cm.obj)
            return cm.obj.enter(I)
        raise AnalysisError("ExitStack.enter_context(%r)" % (cm,))

    def m_close(self, I, args, kwargs):
        if args or kwargs:
            raise AnalysisError("ExitStack.close arguments")
        self.exit(I)
        return NONE


class _CtxFactory(object):
    """a generator function decorated with contextlib.contextmanager"""
    def __init__(self, fn):
        self.fn = fn

    def m___call__(self, I, args, kwargs):
        return PyObjV(_CtxInstance(self.fn, list(args), dict(kwargs)))


class _CtxInstance(object):
    """with f(args) as v: BODY  ==  f's body with its single 'yield X' standing for 'v = X; BODY' (an exception leaving BODY
    is raised at the yield, inside whatever try block of f surrounds it)"""
    def __init__(self, fn, args, kwargs):
        self.fn, self.args, self.kwargs = fn, args, kwargs

    def run_with(self, I, body):
        fi = self.fn.fi
        yields = [n for n in ast.walk(fi.node) if isinstance(n, (ast.Yield, ast.YieldFrom))]
        if len(yields) != 1 or isinstance(yields[0], ast.YieldFrom):
            raise AnalysisError("context manager %s does not have exactly one yield" % fi.fq)
        env = I.bind_params(self.fn, self.args, dict(self.kwargs), None)
        state = {"n": 0}

        def at_yield(val):
            state["n"] += 1
            try:
                body(val)
            except Exception as e:
                # return / break / continue leaving the with-body: the manager is left normally (its code after the yield
                # runs), then control goes where the statement sent it
                if type(e).__name__ in ("ReturnSignal", "BreakSignal", "ContinueSignal"):
                    state["leave"] = e
                else:
                    raise
        stack = I.__dict__.setdefault("ctx_yield", [])
        stack.append((yields[0], at_yield))
        I.stack.append(env)
        I.depth += 1
        try:
            try:
                I.exec_block([st for st in fi.node.body
                              if not (isinstance(st, ast.Expr) and isinstance(st.value, ast.Constant))], env)
            except Exception as e:
                if type(e).__name__ != "ReturnSignal":
                    raise
        finally:
            I.depth -= 1
            I.stack.pop()
            stack.pop()
        if state["n"] != 1:
            raise AnalysisError("context manager %s yielded %d times" % (fi.fq, state["n"]))
        if "leave" in state:
            raise state["leave"]


class _Wraps(object):
    def __init__(self, wrapped):
        self.wrapped = wrapped

    def m___call__(self, I, args, kwargs):
        if kwargs or len(args) != 1:
            raise AnalysisError("functools.wraps(...) applied to %r" % (args,))
        w = args[0]
        if isinstance(w, FuncV) and isinstance(self.wrapped, FuncV):
            w.attrs["__wrapped__"] = self.wrapped
            w.attrs["__name__"] = Const(self.wrapped.fi.name)
        return w


class _MemoDecorator(object):
    def m___call__(self, I, args, kwargs):
        if kwargs or len(args) != 1 or not isinstance(args[0], FuncV):
            raise AnalysisError("lru_cache applied to %r" % (args,))
        return PyObjV(_Memo(args[0]))


class IterV(V):
    def __init__(self, items):
        self.items = list(items)
        self.pos = 0

    def key(self):
        return ("iter", id(self))


class SuperV(V):
    def __init__(self, ci, inst):
        self.ci = ci
        self.inst = inst

    def key(self):
        return ("super", self.ci.fq)


class _CsvWriter(object):
    def __init__(self, f, lt):
        self.f, self.lt = f, lt

    def m_writerow(self, I, args, kwargs):
        if kwargs or len(args) != 1:
            raise AnalysisError("csv writerow arguments")
        row = I.as_iterable(args[0])
        for it in (row.items if isinstance(row, ListV) and not getattr(row, "tail", None) else []):
            if isinstance(it, Const) and isinstance(it.v, str) and any(ch in it.v for ch in ',"\r\n'):
                raise AnalysisError("csv field %r needs quoting" % (it.v,))
        s = I.join(Const(","), args[0], None)
        I.write_to(self.f, I.str_concat(s, Const(self.lt)) if hasattr(I, "str_concat") else StrV(SCat([to_node(s), SLit(self.lt)])), None)
        return NONE


    def m_writerows(self, I, args, kwargs):
        """writerows(rows) is `for row in rows: writerow(row)` - rows are taken (and a lazy producer runs) one at a time"""
        if kwargs or len(args) != 1:
            raise AnalysisError("csv writerows arguments")
        from .symeval import Env
        from .symeval_ops import PyObjV
        w = self

        class _Each(object):
            def m___call__(self, J, a, k):
                return w.m_writerow(J, a, k)
        loop = ast.parse("for _row in _rows:\n    _each(_row)\n").body[0]
        env = Env(label="csv.writerows")
        env.vars["_rows"] = args[0]
        env.vars["_each"] = PyObjV(_Each())
        I.exec_stmt(loop, env)
        return NONE


class SetAccV(V):
    """set() being filled by .add() in (nested) symbolic loops"""
    def __init__(self):
        self.adds = []      # list of (binders, elem)
        self.concrete = []

    def key(self):
        out = []
        for binders, e in self.adds:
            k = e.key()
            env = {}
            bs = []
            for i, (var, dom) in enumerate(binders):
                env[var] = ep.sym("@s%d" % i)
            for i, (var, dom) in enumerate(binders):
                bs.append(ep._subst_key(dom, env))
            out.append((tuple(bs), ep._subst_key(k, env)))
        return ("setacc", tuple(out), tuple(c.key() for c in self.concrete))

    def cardinality(self):
        """number of distinct elements, for the recognised shape
        {sorted(a(x), a(y)) | x in S, y in S} = n(n+1)/2 (a injective on S), else None"""
        if self.concrete or len(self.adds) != 1:
            return None
        binders, e = self.adds[0]
        k = self.key()[1][0]
        doms, ek = k
        if len(doms) == 2 and doms[0] == doms[1] and isinstance(ek, tuple) and ek and ek[0] == "sorted" and len(ek[1]) == 2:
            a, b = ek[1]
            sa = ep._subst_key(a, {"@s0": ep.sym("@x"), "@s1": ep.sym("@y")})
            sb = ep._subst_key(b, {"@s0": ep.sym("@y"), "@s1": ep.sym("@x")})
            from .treecmp import key_eq
            if key_eq(sa, sb) and doms[0][0] == "seq":
                n = ep.app(("len", doms[0][1]), [])
                return n * (n + ep.const(1)) / ep.const(2)
        return None

    def as_sorted(self):
        s = SeqV("opaque", path=("sorted_set", self.key()), elem_class=None)
        s.setacc = self
        return s

    def __repr__(self):
        return "set{%s}" % ", ".join("%r for %s" % (e, b) for b, e in self.adds)

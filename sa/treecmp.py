"""Structural comparison of two string-expression trees modulo alpha-renaming
of loop variables, algebraic equality of values (ep.equal) and - optionally -
field width/precision."""
from . import ep
from .values import *    # noqa
from .strtree import *   # noqa
from .symeval_ops import SJoin, SJoinItems, DerivV, NTV, ChunkListV


class Opts(object):
    def __init__(self, ignore_precision=True, ws_insensitive=False):
        self.ignore_precision = ignore_precision
        self.ws_insensitive = ws_insensitive


def _as_index_loop(n):
    if isinstance(n, SRep):
        return n
    if isinstance(n, SSeqRep) and isinstance(n.seq, tuple) and len(n.seq) == 2 and n.seq[0] == "seq":
        return SRep(n.var, ep.const(0), ep.app(("len", n.seq[1]), []), n.body)
    return None


class Cmp(object):
    def __init__(self, interp, opts=None):
        self.I = interp
        self.opts = opts or Opts()
        self.diffs = []
        self.depth = 0
        self.fields = 0
        self.loops = 0
        self.checks = []   # (where, kind, ok, detail, site)
        self._cur = None

    def diff(self, where, msg):
        self.diffs.append("%s: %s" % (where, msg))
        if self._cur is not None:
            self._cur[2] = False
            self._cur[3] = (self._cur[3] + "; " if self._cur[3] else "") + msg

    def begin(self, where, kind, site=None, desc=""):
        self._cur = [where, kind, True, "", site, desc]
        self.checks.append(self._cur)

    # -- values
    def val_eq(self, a, b):
        if isinstance(b, Opaque) and b.path == ("any",):
            return True
        if isinstance(a, Num) and isinstance(b, Num):
            if ep.equal(a.rf, b.rf)[0]:
                return True
            if rf_struct_eq(a.rf, b.rf):
                return True
            return case_split_eq(a.rf, b.rf)
        if isinstance(a, Phi) and isinstance(b, Num):
            try:
                fa = self.I.num(a)
            except Exception:
                return False
            return ep.equal(fa, b.rf)[0] or case_split_eq(fa, b.rf)
        if isinstance(a, Num) and isinstance(b, Opaque):
            return ep.equal(a.rf, ep.app(b.path, []))[0]
        if isinstance(b, Num) and isinstance(a, Opaque):
            return self.val_eq(b, a)
        if isinstance(a, Opaque) and isinstance(b, Opaque):
            return key_eq(a.path, b.path)
        if isinstance(a, Const) and isinstance(b, Const):
            return a.v == b.v
        if type(a) is not type(b):
            if is_strish(a) and is_strish(b):
                return repr(flatten(to_node(a))) == repr(flatten(to_node(b)))
            return False
        if isinstance(a, StrV):
            c = Cmp(self.I, self.opts)
            c.nodes(a.node, b.node, "str")
            return not c.diffs
        if isinstance(a, Phi):
            return key_eq(a.cond.key(), b.cond.key()) and self.val_eq(a.a, b.a) and self.val_eq(a.b, b.b)
        return key_eq(a.key(), b.key())

    # -- nodes
    def count_is_multiple(self, n, per):
        """is the number of values n known to be a whole multiple of per - because it is a constant, or because the evaluated
        code has refused (raised) on `n % per != 0` before it got here (a standing condition of the evaluation)"""
        c = n.as_const()
        if c is not None:
            return c % per == 0
        for cond, val in list(getattr(self.I, "sticky_conds", [])) + list(getattr(self.I, "path_conds", [])):
            if getattr(cond, "kind", None) != "cmp" or len(cond.args) != 3:
                continue
            op, x, y = cond.args
            if not (isinstance(x, Num) and isinstance(y, Num) and y.rf.is_zero()):
                continue
            if ep.equal(x.rf, ep.app("mod", [n, ep.const(per)]))[0] and ((op == "!=" and val is False) or (op == "==" and val is True)):
                return True
        return False

    def nodes(self, a, b, where="out"):
        pa, pb = parts_of(a), parts_of(b)
        pa, pb = self.split_lits(pa, pb)
        if len(pa) != len(pb):
            self.begin(where, "structure", None, "same sequence of pieces")
            self.diff(where, "different number of pieces: %d vs %d\n      found  %s\n      expect %s"
                      % (len(pa), len(pb), _short(pa), _short(pb)))
            return
        for i, (x, y) in enumerate(zip(pa, pb)):
            self.node(x, y, "%s[%d]" % (where, i))

    def split_lits(self, pa, pb):
        """align literal boundaries: literals may be merged differently on the two sides"""
        def explode(ps):
            out = []
            for p in ps:
                if isinstance(p, SLit):
                    out.extend(SLit(ch) for ch in p.text)
                else:
                    out.append(p)
            return out
        ea, eb = explode(pa), explode(pb)
        def regroup(ps):
            out = []
            for p in ps:
                if isinstance(p, SLit) and out and isinstance(out[-1], SLit):
                    out[-1] = SLit(out[-1].text + p.text)
                else:
                    out.append(p)
            return out
        return regroup(ea), regroup(eb)

    def node(self, a, b, where):
        kind = type(b).__name__
        desc = ""
        if isinstance(b, SFmt):
            desc = "field %s = %s" % (b.spec(), _short(b.value, 120))
        elif isinstance(b, SLit):
            desc = "literal %r" % (b.text[:40],)
        elif isinstance(b, (SRep, SSeqRep, SJoin, SChunk)):
            desc = "repetition %s" % _short(b, 80)
        self.begin(where, kind, getattr(a, "site", None), desc)
        self.node_(a, b, where)

    def node_(self, a, b, where):
        if isinstance(a, SLit) and isinstance(b, SLit):
            ta, tb = a.text, b.text
            if self.opts.ws_insensitive:
                ta, tb = " ".join(ta.split()), " ".join(tb.split())
            if ta != tb:
                self.diff(where, "literal text differs: found %r expect %r" % (a.text, b.text))
            return
        if type(a) is not type(b):
            # 'for k, e in enumerate(S)' / 'for e in S' and 'for i in range(len(S))' visit the same elements: the loop
            # variable of an element loop is the element's index
            a2, b2 = _as_index_loop(a), _as_index_loop(b)
            if a2 is not None and b2 is not None and type(a2) is type(b2) and (a2 is not a or b2 is not b):
                return self.node_(a2, b2, where)
            self.diff(where, "different constructs: found %s expect %s" % (_short(a), _short(b)))
            return
        if isinstance(a, SFmt):
            self.fields += 1
            if a.conv != b.conv and not ({a.conv, b.conv} <= {"s", "d"} and self.opts.ignore_precision):
                self.diff(where, "conversion differs: found %s expect %s (value %s)" % (a.spec(), b.spec(), _short(a.value)))
            if not self.opts.ignore_precision:
                if (a.flags, a.width, a.prec) != (b.flags, b.width, b.prec):
                    self.diff(where, "field format differs: found %s expect %s" % (a.spec(), b.spec()))
            if not self.val_eq(a.value, b.value):
                if "'accum:" in repr(getattr(a.value, "key", lambda: "")()):
                    # the evaluator lost track of this value (a loop-carried variable it could not put in closed form):
                    # it cannot be compared, which is the analysis' limit and not a difference of the program
                    from .model import AnalysisError
                    raise AnalysisError("a written value could not be put in closed form (%s at %s)" % (_short(a.value, 120), where))
                self.diff(where, "field value differs:\n      found  %s\n      expect %s" % (_short(a.value, 500), _short(b.value, 500)))
            return
        if isinstance(a, SRep):
            self.loops += 1
            cv = "@L%d" % self.depth
            n_a = a.hi - a.lo
            n_b = b.hi - b.lo
            if not ep.equal(n_a, n_b)[0]:
                self.diff(where, "loop trip count differs: found %r expect %r" % (n_a, n_b))
            body_a = self.I.subst_node(a.body, {a.var: ep.sym(cv) + a.lo})
            body_b = self.I.subst_node(b.body, {b.var: ep.sym(cv) + b.lo})
            self.depth += 1
            self.nodes(body_a, body_b, where + ".loop")
            self.depth -= 1
            return
        if isinstance(a, SSeqRep):
            self.loops += 1
            cv = "@L%d" % self.depth
            if not key_eq(a.seq, b.seq):
                self.diff(where, "loop iterates a different sequence: found %s expect %s" % (a.seq, b.seq))
            body_a = self.I.subst_node(a.body, {a.var: ep.sym(cv)})
            body_b = self.I.subst_node(b.body, {b.var: ep.sym(cv)})
            self.depth += 1
            self.nodes(body_a, body_b, where + ".loop")
            self.depth -= 1
            return
        if isinstance(a, SJoin):
            self.loops += 1
            cv = "@L%d" % self.depth
            self.nodes(a.sep, b.sep, where + ".sep")
            sa_, sb_ = (a.seq.key() if a.seq is not None else None), (b.seq.key() if b.seq is not None else None)
            if not key_eq(sa_, sb_):
                self.diff(where, "join iterates a different sequence: found %s expect %s" % (sa_, sb_))
            if a.seq is None:
                if not ep.equal(a.hi - a.lo, b.hi - b.lo)[0]:
                    self.diff(where, "join trip count differs")
                body_a = self.I.subst_node(a.body, {a.var: ep.sym(cv) + a.lo})
                body_b = self.I.subst_node(b.body, {b.var: ep.sym(cv) + b.lo})
            else:
                body_a = self.I.subst_node(a.body, {a.var: ep.sym(cv)})
                body_b = self.I.subst_node(b.body, {b.var: ep.sym(cv)})
            self.depth += 1
            self.nodes(body_a, body_b, where + ".join")
            self.depth -= 1
            return
        if isinstance(a, SChunk):
            self.loops += 1
            cv = "@L%d" % self.depth
            if not ep.equal(a.hi - a.lo, b.hi - b.lo)[0]:
                self.diff(where, "number of tabulated values differs: found %r expect %r" % (a.hi - a.lo, b.hi - b.lo))
            for attr in ("per", "sep", "end", "flush"):
                if getattr(a, attr) != getattr(b, attr):
                    if attr == "flush" and a.per == b.per and self.count_is_multiple(a.hi - a.lo, a.per):
                        continue         # no incomplete last row exists: emitting or dropping it is the same text
                    self.diff(where, "row layout differs (%s): found %r expect %r" % (attr, getattr(a, attr), getattr(b, attr)))
            if getattr(a, "prefix", "") != getattr(b, "prefix", ""):
                self.diff(where, "row prefix differs: found %r expect %r" % (getattr(a, "prefix", ""), getattr(b, "prefix", "")))
            if not key_eq(a.seq, b.seq):
                self.diff(where, "chunk sequence differs")
            ia = self.I.subst_node(a.item, {a.var: ep.sym(cv) + a.lo})
            ib = self.I.subst_node(b.item, {b.var: ep.sym(cv) + b.lo})
            self.depth += 1
            self.nodes(ia, ib, where + ".item")
            self.depth -= 1
            return
        if isinstance(a, SAlt):
            if not key_eq(a.cond.key(), b.cond.key()):
                self.diff(where, "condition differs: found %r expect %r" % (a.cond, b.cond))
            self.nodes(a.a, b.a, where + ".then")
            self.nodes(a.b, b.b, where + ".else")
            return
        if isinstance(a, SOptWS):
            return
        self.diff(where, "construct %s not comparable" % type(a).__name__)


def is_strish(v):
    return isinstance(v, StrV) or (isinstance(v, Const) and isinstance(v.v, str))


def key_eq(a, b):
    if isinstance(a, tuple) and isinstance(b, tuple) and len(a) == 2 and len(b) == 2 and a[0] == "sorted" and b[0] == "sorted":
        xs, ys = list(a[1]), list(b[1])
        if len(xs) != len(ys):
            return False
        for x in xs:
            for i, y in enumerate(ys):
                if key_eq(x, y):
                    del ys[i]
                    break
            else:
                return False
        return True
    if isinstance(a, tuple) and isinstance(b, tuple):
        return len(a) == len(b) and all(key_eq(x, y) for x, y in zip(a, b))
    if isinstance(a, ep.RF) and isinstance(b, ep.RF):
        return ep.equal(a, b)[0]
    if isinstance(a, ep.RF) or isinstance(b, ep.RF):
        try:
            return ep.equal(ep.rf(a), ep.rf(b))[0]
        except Exception:
            return False
    return a == b


def _short(x, n=300):
    s = repr(x)
    return s if len(s) <= n else s[:n - 3] + "..."


def compare(interp, found, expect, opts=None):
    c = Cmp(interp, opts)
    c.nodes(found, expect)
    return c


def rf_struct_eq(a, b):
    """equality of normal forms whose opaque function keys are compared with key_eq
    (keys may contain sorted multisets and algebraic sub-terms)"""
    a, b = ep.rf(a), ep.rf(b)
    pa = a.n * b.d
    pb = b.n * a.d
    ta, tb = list(pa.t.items()), list(pb.t.items())
    if len(ta) != len(tb):
        return False
    for m, c in ta:
        for i, (m2, c2) in enumerate(tb):
            if ep._close(c, c2) and mono_eq(m, m2):
                del tb[i]
                break
        else:
            return False
    return True


def mono_eq(m1, m2):
    f1, f2 = list(m1.f), list(m2.f)
    if len(f1) != len(f2):
        return False
    for a, e in f1:
        for i, (a2, e2) in enumerate(f2):
            if e == e2 and atom_eq(a, a2):
                del f2[i]
                break
        else:
            return False
    return True


def atom_eq(a, b):
    if a == b:
        return True
    if isinstance(a, ep.AppA) and isinstance(b, ep.AppA):
        return a.dorder == b.dorder and len(a.args) == len(b.args) and key_eq(a.fn, b.fn) \
            and all(ep.equal(x, y)[0] or rf_struct_eq(x, y) for x, y in zip(a.args, b.args))
    if isinstance(a, ep.ExpA) and isinstance(b, ep.ExpA):
        return rf_struct_eq(ep.RF(a.arg), ep.RF(b.arg))
    return False


def _phi_atoms(x):
    return [a for a in ep.rf(x).atoms() if isinstance(a, ep.AppA) and isinstance(a.fn, tuple) and a.fn and a.fn[0] == "phi"]


def case_split_eq(found, expect, depth=0):
    """found contains a selection phi(x == c ? A : B): equal to expect iff A = expect at x = c and B = expect otherwise"""
    if depth > 3:
        return False
    phis = _phi_atoms(found)
    if not phis:
        return False
    p = phis[0]
    cond = p.fn[1]
    # ('cond', 'cmp', op, ('num', L), ('num', R))
    if not (isinstance(cond, tuple) and len(cond) == 5 and cond[1] == "cmp" and cond[2] in ("==", "!=")):
        return False
    L, R = cond[3][1], cond[4][1]
    diff = L - R
    syms = [a for a in diff.atoms() if isinstance(a, ep.Sym)]
    if len(syms) != 1 or diff.df:
        return False
    s = syms[0].name
    # solve diff = a*s + b = 0
    a_coef = ep.D(diff, s)
    if a_coef.depends_on(s) or a_coef.is_zero():
        return False
    b_coef = ep.substitute(diff, {s: ep.const(0)})
    root = -b_coef / a_coef
    then_i, else_i = (0, 1) if cond[2] == "==" else (1, 0)

    def pick(i):
        return {("fn", p.fn, p.dorder): (lambda *args, i=i: args[i])}
    env1 = pick(then_i)
    env1[s] = root
    f1 = ep.substitute(found, env1)
    e1 = ep.substitute(expect, {s: root})
    ok1 = ep.equal(f1, e1)[0] or rf_struct_eq(f1, e1) or case_split_eq(f1, e1, depth + 1)
    if not ok1:
        return False
    f2 = ep.substitute(found, pick(else_i))
    return ep.equal(f2, expect)[0] or rf_struct_eq(f2, expect) or case_split_eq(f2, expect, depth + 1)

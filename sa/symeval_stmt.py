"""Statements, control flow, loops (concrete and symbolic) of the symbolic
evaluator.  Conditionals on symbolic conditions are if-converted: both branches
run on the same abstract store with every write guarded by the branch
condition (Phi for values, SAlt for emitted text)."""
import ast

from . import ep
from .model import AnalysisError, FuncInfo, ClassInfo
from .values import *    # noqa
from .strtree import *   # noqa
from .symeval import Env, ReturnSignal, BreakSignal, ContinueSignal, RaiseSignal, is_strlike, neg_cond, make_phi, seq_concat
from .symeval_ops import (BoundBuiltin, DerivV, NTClassV, NTV, ExcV, ChunkListV, BoundTupleOf, SJoin, SJoinItems,
                          strip_docstring_body)
from .symeval_ext import BecomeSignal, SetAccV, IterV, SuperV


def terminates(stmts):
    """does this block definitely end in return/raise/continue/break?"""
    if not stmts:
        return False
    last = stmts[-1]
    if isinstance(last, (ast.Return, ast.Raise, ast.Continue, ast.Break)):
        return True
    if isinstance(last, ast.If):
        return terminates(last.body) and terminates(last.orelse)
    return False


def always_raises(stmts):
    if not stmts:
        return False
    last = stmts[-1]
    if isinstance(last, ast.Raise):
        return True
    if isinstance(last, ast.If):
        return always_raises(last.body) and always_raises(last.orelse)
    return False


EXT_EXC = {
    "BaseException": None, "Exception": "BaseException", "ValueError": "Exception", "LookupError": "Exception",
    "KeyError": "LookupError", "IndexError": "LookupError", "AttributeError": "Exception", "TypeError": "Exception",
    "ArithmeticError": "Exception", "ZeroDivisionError": "ArithmeticError", "OverflowError": "ArithmeticError",
    "ImportError": "Exception", "StopIteration": "Exception", "RuntimeError": "Exception", "NotImplementedError": "RuntimeError",
    "AssertionError": "Exception", "NameError": "Exception", "OSError": "Exception",
    # configparser
    "Error": "Exception", "NoSectionError": "Error", "DuplicateSectionError": "Error", "DuplicateOptionError": "Error",
    "NoOptionError": "Error", "InterpolationError": "Error", "InterpolationDepthError": "InterpolationError",
    "InterpolationMissingOptionError": "InterpolationError", "InterpolationSyntaxError": "InterpolationError",
    "ParsingError": "Error", "MissingSectionHeaderError": "ParsingError",
    # cexprtk / pyparsing
    "ParseException": "Exception", "NameShadowException": "Exception", "ReservedFunctionShadowException": "NameShadowException",
    "VariableNameShadowException": "NameShadowException",
}


def ext_exc_subclass(name, base):
    seen = 0
    while name is not None and seen < 20:
        if name == base:
            return True
        name = EXT_EXC.get(name)
        seen += 1
    return False


class LoopCtx(object):
    def __init__(self, var, lo, hi, seq):
        self.var = var
        self.lo = lo
        self.hi = hi
        self.seq = seq
        self.buf_marks = {}     # id(buf) -> (buf, len before)
        self.list_marks = {}    # id(list) -> (list, len(tail) before)
        self.dict_stores = {}   # id(dict) -> (dict, [(key, val)])


class StmtMixin(object):

    # ----------------------------------------------------------------- blocks
    def exec_block(self, stmts, env):
        # loop_body_tail: "nothing of the enclosing loop body follows this statement" - holds for a statement only if it
        # holds for its block and the statement is the block's last one
        outer_tail = getattr(self, "loop_body_tail", False)
        try:
            self._exec_block(stmts, env, outer_tail)
        finally:
            self.loop_body_tail = outer_tail

    def _exec_block(self, stmts, env, outer_tail):
        i = 0
        n = len(stmts)
        while i < n:
            st = stmts[i]
            self.loop_body_tail = outer_tail and i == n - 1
            if isinstance(st, ast.If) and (always_raises(st.body) != always_raises(st.orelse)):
                # a guard that raises: record the raise, then everything after is
                # only reached when the guard is false (standing assumption, no Phi needed)
                t = self.truth(self.eval(st.test, env))
                a_r = always_raises(st.body)
                if isinstance(t, bool):
                    self.exec_block(st.body if t else st.orelse, env)
                    i += 1
                    continue
                self.run_branch(st.body if a_r else st.orelse, env, t, a_r)
                self.sticky_conds.append((t, not a_r))
                self.exec_block(st.orelse if a_r else st.body, env)
                i += 1
                continue
            if isinstance(st, ast.If) and i + 1 < n:
                a_term, b_term = terminates(st.body), terminates(st.orelse)
                if a_term != b_term:
                    # move the rest of the block into the branch that continues
                    rest = stmts[i + 1:]
                    new = ast.If(test=st.test,
                                 body=st.body if a_term else st.body + rest,
                                 orelse=(st.orelse + rest) if a_term else st.orelse)
                    ast.copy_location(new, st)
                    self.loop_body_tail = outer_tail
                    self.exec_stmt(new, env)
                    return
            self.exec_stmt(st, env)
            i += 1

    def exec_stmt(self, st, env):
        meth = getattr(self, "s_" + type(st).__name__, None)
        if meth is None:
            self.err(st, "statement kind %s" % type(st).__name__)
        try:
            meth(st, env)
        except BecomeSignal as b:
            self.rebind(b.old, b.new)

    def rebind(self, old, new):
        for fr in self.stack:
            e = fr
            while e is not None:
                for k, v in list(e.vars.items()):
                    if v is old:
                        e.vars[k] = new
                e = e.parent

    # ----------------------------------------------------------------- guards
    def guard_conds(self, birth):
        return list(self.path_conds[birth:])

    def guarded(self, new, old, birth):
        conds = self.guard_conds(birth)
        if not conds:
            return new
        if old is None:
            old = UNDEF
        outer = list(self.path_conds[:birth]) + list(self.sticky_conds)
        res = new
        for i in range(len(conds) - 1, -1, -1):
            c, v = conds[i]
            # the previous value on the path that leaves this branch at level i
            other = self.restrict(old, outer + conds[:i] + [(c, not v)])
            res = make_phi(c, res, other) if v else make_phi(c, other, res)
        return res

    def restrict(self, v, condlist):
        while isinstance(v, Phi):
            hit = False
            for c, val in condlist:
                if c.key() == v.cond.key():
                    v = v.a if val else v.b
                    hit = True
                    break
                if neg_cond(c).key() == v.cond.key():
                    v = v.b if val else v.a
                    hit = True
                    break
            if not hit:
                break
        return v

    def resolve(self, v):
        """simplify Phi by the current path conditions"""
        while isinstance(v, Phi):
            hit = False
            for c, val in self.path_conds + self.sticky_conds:
                if c.key() == v.cond.key():
                    v = v.a if val else v.b
                    hit = True
                    break
                if neg_cond(c).key() == v.cond.key():
                    v = v.b if val else v.a
                    hit = True
                    break
            if not hit:
                break
        return v

    def e_Attribute(self, node, env):
        # a value stored on an object under path conditions is read back under the conditions that hold here
        v = super(StmtMixin, self).e_Attribute(node, env)
        if isinstance(v, Phi):
            v = self.resolve(v)
            if isinstance(v, Undefined):
                self.err(node, "attribute %s may be undefined here" % node.attr)
        return v

    def lookup_name(self, name, env, node=None):
        v = super(StmtMixin, self).lookup_name(name, env, node)
        v = self.resolve(v)
        if isinstance(v, Undefined):
            self.err(node, "name %r may be undefined here" % name)
        return v

    # ----------------------------------------------------------------- assign
    def set_var(self, env, name, val):
        e = env
        target = env
        # assignment always binds in the current function frame (no nonlocal support)
        old = target.vars.get(name)
        birth = getattr(target, "birth", 0)
        target.vars[name] = self.guarded(val, old, birth)

    def assign(self, target, val, env):
        if isinstance(target, ast.Name):
            self.set_var(env, target.id, val)
            return
        if isinstance(target, (ast.Tuple, ast.List)):
            items = self.unpack(val, len(target.elts), target)
            for t, v in zip(target.elts, items):
                self.assign(t, v, env)
            return
        if isinstance(target, ast.Attribute):
            base = self.eval(target.value, env)
            if isinstance(base, (InstV, FuncV)) and not self._has_setter(base, target.attr):
                old = base.attrs.get(target.attr)
                val = self.guarded(val, old, getattr(base, "birth", 0))
            self.setattr(base, target.attr, val, target)
            return
        if isinstance(target, ast.Subscript):
            base = self.eval(target.value, env)
            idx = self.eval(target.slice, env)
            self.setitem(base, idx, val, target)
            return
        self.err(target, "assignment target %s" % type(target).__name__)

    def _has_setter(self, base, attr):
        if isinstance(base, InstV):
            for c in base.ci.mro():
                if isinstance(c, ClassInfo) and attr in c.setters:
                    return True
        return False

    def unpack(self, val, n, node):
        if isinstance(val, tuple) and val and val[0] == "sympy_symbols":
            # symbols are named after the *python variables* they are bound to
            names = []
            parent_targets = getattr(node, "elts", [])
            for t in parent_targets:
                if not isinstance(t, ast.Name):
                    self.err(node, "sympy.symbols unpacked into non-names")
                names.append(t.id)
            return [Num(ep.sym(nm)) for nm in names]
        if isinstance(val, ListV) and not getattr(val, "tail", None):
            if len(val.items) != n:
                raise RaiseSignal(ExcV(ExtV("builtins.ValueError"), [Const("unpack")]), node)
            return val.items
        if isinstance(val, NTV):
            if len(val.values) != n:
                raise RaiseSignal(ExcV(ExtV("builtins.ValueError"), [Const("unpack")]), node)
            return val.values
        if isinstance(val, Opaque):
            return [Opaque(("item", val.path, ("num", ep.const(i)))) for i in range(n)]
        if isinstance(val, SortedV) and len(val.items) == n:
            return [Opaque(("sorted_item", val.key(), i)) for i in range(n)]
        if isinstance(val, SeqV) and val.kind == "opaque":
            return [self.seq_elem(val, ep.const(i)) for i in range(n)]
        if isinstance(val, Phi) and val.a is not None and val.b is not None:
            # unpacking distributes over a conditional value
            ua, ub = self.unpack(val.a, n, node), self.unpack(val.b, n, node)
            return [make_phi(val.cond, x, y) for x, y in zip(ua, ub)]
        self.err(node, "unpacking of %r" % (val,))

    def setitem(self, base, idx, val, node):
        depth = len(self.loop_stack)
        if isinstance(base, DictV):
            if getattr(base, "lbirth", 0) < depth and not isinstance(idx, (Const,)) and self._depends_on_loop(idx):
                ctx = self.loop_stack[-1]
                ctx.dict_stores.setdefault(id(base), (base, []))[1].append((idx, val))
                return
            if self.guard_conds(getattr(base, "birth", 0)):
                old = base.items.get(idx.key(), (idx, UNDEF))[1]
                val = self.guarded(val, old, getattr(base, "birth", 0))
            if idx.key() not in base.items:
                from .symeval_ext import concrete_key
                if not (concrete_key(idx) and all(concrete_key(kk) for kk, _ in base.items.values())):
                    # a key that may equal a stored one: that entry is overwritten exactly when they are equal
                    kind, res = self.dict_lookup(base, idx, node)
                    if kind == "hit":
                        for kk_key, (kk, vv) in list(base.items.items()):
                            if self.equals(idx, kk, node) is True:
                                base.items[kk_key] = (kk, val)
                                return
                    if kind == "maybe":
                        for kk_key, (kk, vv) in list(base.items.items()):
                            r = self.equals(idx, kk, node)
                            if isinstance(r, Cond):
                                r = self.assume(r)
                            if isinstance(r, Cond):
                                base.items[kk_key] = (kk, make_phi(r, val, vv))
                        base.symkeys = True        # the number of entries now depends on undecided equalities
            base.items[idx.key()] = (idx, val)
            if getattr(base, "module", None) is not None:
                self.module_store(base.module, idx, val, node)
            return
        if isinstance(base, ListV):
            c = idx.const() if isinstance(idx, Num) else None
            if c is None:
                self.err(node, "symbolic list index store")
            base.items[int(c)] = val
            return
        if type(base).__name__ == "PyObjV":
            base.obj.setitem(self, idx, val)
            return
        if isinstance(base, (Opaque, InstV)):
            self.log_event(("store", base.key()))
            return
        self.err(node, "item store on %r" % (base,))

    def _depends_on_loop(self, v):
        names = [c.var for c in self.loop_stack]
        k = repr(v.key())
        return any(nm in k for nm in names)

    # ----------------------------------------------------------------- simple statements
    def s_Pass(self, st, env):
        pass

    def s_Expr(self, st, env):
        if isinstance(st.value, ast.Constant):
            return
        self.eval(st.value, env)

    def s_Assign(self, st, env):
        val = self.eval(st.value, env)
        if len(st.targets) == 1 and isinstance(st.targets[0], (ast.Tuple, ast.List)) and isinstance(val, tuple):
            items = self.unpack(val, len(st.targets[0].elts), st.targets[0])
            for t, v in zip(st.targets[0].elts, items):
                self.assign(t, v, env)
            return
        if isinstance(val, tuple) and val and val[0] == "sympy_symbols":
            # single symbol
            t = st.targets[0]
            if isinstance(t, ast.Name):
                self.assign(t, Num(ep.sym(t.id)), env)
                return
        for t in st.targets:
            self.assign(t, val, env)

    def s_AnnAssign(self, st, env):
        if st.value is not None:
            self.assign(st.target, self.eval(st.value, env), env)

    def s_AugAssign(self, st, env):
        cur = self.eval(_load(st.target), env)
        val = self.eval(st.value, env)
        if isinstance(cur, ListV) and isinstance(st.op, ast.Add):
            self.list_extend(cur, val, st)
            return
        self.assign(st.target, self.binop(st.op, cur, val, st), env)

    def s_Return(self, st, env):
        raise ReturnSignal(self.eval(st.value, env) if st.value is not None else NONE)

    def s_Break(self, st, env):
        raise BreakSignal()

    def s_Continue(self, st, env):
        raise ContinueSignal()

    def s_Import(self, st, env):
        for a in st.names:
            nm = a.asname or a.name.split(".")[0]
            target = a.name if a.asname else a.name.split(".")[0]
            if target in self.p.modules:
                env.vars[nm] = ModV(target, self.p.modules[target])
            else:
                env.vars[nm] = ModV(target)

    def s_ImportFrom(self, st, env):
        m = env.find_module()
        target = self.p._abs_import(m, st.level, st.module)
        for a in st.names:
            nm = a.asname or a.name
            sub = target + "." + a.name
            if sub in self.p.modules:
                env.vars[nm] = ModV(sub, self.p.modules[sub])
            elif target in self.p.modules:
                v = self.module_global(self.p.modules[target], a.name, st)
                if v is None:
                    self.err(st, "cannot import %s from %s" % (a.name, target))
                env.vars[nm] = v
            else:
                env.vars[nm] = ExtV(target + "." + a.name)

    def s_Global(self, st, env):
        self.log_event(("global", tuple(st.names)))
        self.err(st, "global statement")

    def s_Nonlocal(self, st, env):
        self.err(st, "nonlocal statement")

    def s_Delete(self, st, env):
        self.err(st, "del statement")

    def s_Assert(self, st, env):
        t = self.truth(self.eval(st.test, env))
        if t is False:
            raise RaiseSignal(ExcV(ExtV("builtins.AssertionError"), []), st)

    def s_FunctionDef(self, st, env):
        parent = None
        fi = FuncInfo(env.find_module(), st, parent=getattr(env, "funcinfo", None))
        fv = FuncV(fi, closure=env)
        fv.birth = len(self.path_conds)
        for d in reversed(st.decorator_list):
            dv = self.eval(d, env)
            fv = self.call(dv, [fv], {}, st, env)
        self.set_var(env, st.name, fv)

    def s_ClassDef(self, st, env):
        ci = ClassInfo(env.find_module(), st, self.p)
        self.set_var(env, st.name, LocalClassV(ci, env))

    def s_Raise(self, st, env):
        exc = self.eval(st.exc, env) if st.exc is not None else Opaque(("reraise",))
        if isinstance(exc, (ClassV, ExtV)):
            exc = ExcV(exc, [])
        raise RaiseSignal(exc, st)

    def s_With(self, st, env):
        leaving = []
        for idx, item in enumerate(st.items):
            v = self.eval(item.context_expr, env)
            if type(v).__name__ == "PyObjV" and hasattr(v.obj, "run_with"):
                # generator-based context manager: the rest of this with-statement runs at its yield
                rest = ast.With(items=st.items[idx + 1:], body=st.body) if st.items[idx + 1:] else None
                if rest is not None:
                    ast.copy_location(rest, st)

                def body(val, item=item, rest=rest):
                    if item.optional_vars is not None:
                        self.assign(item.optional_vars, val, env)
                    if rest is not None:
                        self.s_With(rest, env)
                    else:
                        self.exec_block(st.body, env)
                try:
                    v.obj.run_with(self, body)
                finally:
                    for o in reversed(leaving):
                        o.exit(self)
                return
            if type(v).__name__ == "PyObjV" and hasattr(v.obj, "enter"):
                leaving.append(v.obj)
                v = v.obj.enter(self)         # library context managers whose __enter__ returns something else
            if item.optional_vars is not None:
                self.assign(item.optional_vars, v, env)
        try:
            self.exec_block(st.body, env)
        finally:
            for o in reversed(leaving):
                o.exit(self)

    def s_Try(self, st, env):
        rw = self.try_as_membership_test(st, env)
        if rw is None:
            rw = self.try_as_hasattr_test(st, env)
        if rw is not None:
            return self.exec_stmt(rw, env)
        guard = self._catches_attribute_error(st)
        if guard:
            self.attr_guard = self.__dict__.get("attr_guard", 0) + 1
        try:
            try:
                self.exec_block(st.body, env)
            finally:
                if guard:
                    self.attr_guard -= 1
        except RaiseSignal as r:
            for h in st.handlers:
                if self.handler_matches(h, r.exc, env):
                    if h.name:
                        env.vars[h.name] = r.exc
                    self.exec_block(h.body, env)
                    break
            else:
                raise
        else:
            self.exec_block(st.orelse, env)
        finally:
            if st.finalbody:
                self.exec_block(st.finalbody, env)

    def _catches_attribute_error(self, st):
        for h in st.handlers:
            if h.type is None:
                continue
            for t in (h.type.elts if isinstance(h.type, ast.Tuple) else [h.type]):
                if ast.unparse(t).split(".")[-1] == "AttributeError":
                    return True
        return False

    def try_as_hasattr_test(self, st, env):
        """try: ... getattr(X, N) / X.N ...  except AttributeError: H   with X an object of which the analysis does not know
        whether it has the attribute is evaluated as   if hasattr(X, N): ...  else: H   (that read is the only thing in the
        block whose AttributeError is undecided; reads on concrete objects raise or not as usual)"""
        if st.orelse or st.finalbody or len(st.handlers) != 1:
            return None
        h = st.handlers[0]
        if h.type is None or isinstance(h.type, ast.Tuple) or ast.unparse(h.type).split(".")[-1] != "AttributeError":
            return None
        if h.name and any(isinstance(n, ast.Name) and n.id == h.name for b in h.body for n in ast.walk(b)):
            return None
        cands = []
        for b in st.body:
            for n in ast.walk(b):
                if isinstance(n, ast.Raise):
                    return None
                if isinstance(n, ast.Attribute) and isinstance(n.ctx, ast.Load) and isinstance(n.value, (ast.Name, ast.Attribute)):
                    cands.append((n.value, ast.Constant(value=n.attr)))
                elif isinstance(n, ast.Call) and isinstance(n.func, ast.Name) and n.func.id == "getattr" and len(n.args) == 2 \
                        and not n.keywords and isinstance(n.args[0], (ast.Name, ast.Attribute)) \
                        and isinstance(n.args[1], (ast.Name, ast.Constant)):
                    cands.append((n.args[0], n.args[1]))
        hits = []
        for x, nm in cands:
            try:
                xv = self.eval(x, env)
                nv = self.eval(nm, env)
            except (AnalysisError, RaiseSignal):
                continue
            if not (isinstance(nv, Const) and isinstance(nv.v, str)):
                continue
            try:
                r = self.hasattr(xv, nv.v)
            except AnalysisError:
                continue
            if not isinstance(r, bool):
                hits.append((x, nm))
        if not hits:
            return None
        if len(hits) > 1:
            self.err(st, "several attribute reads that may fail inside one try block catching AttributeError")
        x, nm = hits[0]
        test = ast.Call(func=ast.Name(id="hasattr", ctx=ast.Load()), args=[x, nm], keywords=[])
        new = ast.If(test=test, body=st.body, orelse=h.body)
        ast.copy_location(new, st)
        ast.copy_location(test, st)
        ast.fix_missing_locations(new)
        return new

    def try_as_membership_test(self, st, env):
        """try: ... D[k] ...  except KeyError: H   with D a dictionary filled in a symbolic loop (its keys are not known
        individually) is evaluated as   if k in D: ... D[k] ...  else: H   - the lookup is the only thing in the block
        that can raise KeyError, and whether it does is exactly whether k is a key."""
        if st.orelse or st.finalbody or len(st.handlers) != 1:
            return None
        h = st.handlers[0]
        if h.type is None or isinstance(h.type, ast.Tuple):
            return None
        tn = ast.unparse(h.type).split(".")[-1]
        if tn not in ("KeyError", "LookupError"):
            return None
        if h.name and any(isinstance(n, ast.Name) and n.id == h.name for b in h.body for n in ast.walk(b)):
            return None
        subs = []
        for b in st.body:
            for n in ast.walk(b):
                if isinstance(n, ast.Subscript) and isinstance(n.ctx, ast.Load) and not isinstance(n.slice, ast.Slice) \
                        and isinstance(n.value, (ast.Name, ast.Attribute)):
                    subs.append(n)
                if isinstance(n, (ast.Raise, ast.Call)) and not (isinstance(n, ast.Call) and False):
                    if isinstance(n, ast.Raise):
                        return None
        hits = []
        for n in subs:
            try:
                base = self.eval(n.value, env)
            except AnalysisError:
                return None
            if isinstance(base, LoopDictV):
                hits.append(n)
        if len(hits) != 1:
            return None
        # the key expression must be evaluable before the block (names / attributes / constants / tuples of those)
        k = hits[0].slice
        if not all(isinstance(x, (ast.Name, ast.Attribute, ast.Constant, ast.Tuple, ast.Load, ast.Subscript)) for x in ast.walk(k)):
            return None
        test = ast.Compare(left=k, ops=[ast.In()], comparators=[hits[0].value])
        new = ast.If(test=test, body=st.body, orelse=h.body)
        ast.copy_location(new, st)
        ast.copy_location(test, st)
        ast.fix_missing_locations(new)
        return new

    def handler_matches(self, h, exc, env):
        if h.type is None:
            return True
        types = h.type.elts if isinstance(h.type, ast.Tuple) else [h.type]
        for t in types:
            tv = self.eval(t, env)
            if isinstance(exc, ExcV):
                if isinstance(tv, ClassV) and isinstance(exc.cls, ClassV) and exc.cls.ci.is_subclass_of(tv.ci):
                    return True
                if isinstance(tv, ExtV) and isinstance(exc.cls, ExtV):
                    a, b = tv.name.split(".")[-1], exc.cls.name.split(".")[-1]
                    if ext_exc_subclass(b, a):
                        return True
                if isinstance(tv, ExtV) and isinstance(exc.cls, ClassV):
                    # repo exception class deriving (transitively) from an external one
                    from .model import ExternalClass
                    a = tv.name.split(".")[-1]
                    for c in exc.cls.ci.mro():
                        if isinstance(c, ExternalClass) and ext_exc_subclass(c.name.split(".")[-1], a):
                            return True
                if isinstance(tv, ExtV) and tv.name.split(".")[-1] in ("Exception", "BaseException") and isinstance(exc.cls, ClassV):
                    return True
        return False

    # ----------------------------------------------------------------- if
    def s_If(self, st, env):
        t = self.truth(self.eval(st.test, env))
        if isinstance(t, bool):
            self.exec_block(st.body if t else st.orelse, env)
            return
        outA = self.run_branch(st.body, env, t, True)
        outB = self.run_branch(st.orelse, env, t, False)
        self.merge_outcomes(t, outA, outB, st)

    def run_branch(self, stmts, env, cond, val):
        self.path_conds.append((cond, val))
        try:
            self.exec_block(stmts, env)
            return ("normal", None)
        except ReturnSignal as r:
            return ("return", r.value)
        except ContinueSignal:
            return ("continue", None)
        except RaiseSignal as r:
            self.raises.append((list(self.path_conds), r.exc, r.node))
            self.__dict__.setdefault("raise_meta", []).append({"file_writes": self.__dict__.get("file_writes", 0)})
            return ("raise", r.exc)
        finally:
            self.path_conds.pop()

    def merge_outcomes(self, t, a, b, st):
        ka, kb = a[0], b[0]
        if ka == "normal" and kb == "normal":
            return
        if ka == "return" and kb == "return":
            raise ReturnSignal(make_phi(t, a[1], b[1]))
        if ka == "raise" and kb == "raise":
            raise RaiseSignal(Opaque(("either", a[1].key(), b[1].key())), st)
        if ka == "raise":
            # the remainder is only reached when not t: make that a standing assumption
            self.sticky_conds.append((t, False))
            if kb == "return":
                raise ReturnSignal(b[1])
            if kb == "continue":
                raise ContinueSignal()
            return
        if kb == "raise":
            self.sticky_conds.append((t, True))
            if ka == "return":
                raise ReturnSignal(a[1])
            if ka == "continue":
                raise ContinueSignal()
            return
        if ka == "continue" and kb == "continue":
            raise ContinueSignal()
        if ka == "return" and kb == "normal":
            # block ended after the else branch (rest was moved into it): falling off the end
            raise ReturnSignal(make_phi(t, a[1], NONE)) if self.at_function_tail else self.err(st, "conditional return in nested block")
        if kb == "return" and ka == "normal":
            raise ReturnSignal(make_phi(t, NONE, b[1])) if self.at_function_tail else self.err(st, "conditional return in nested block")
        if (ka == "continue" and kb == "normal") or (kb == "continue" and ka == "normal"):
            if self.loop_body_tail:
                return
            self.err(st, "conditional continue that is not at the end of the loop body")
        self.err(st, "unsupported combination of branch outcomes %s/%s" % (ka, kb))

    # ----------------------------------------------------------------- while (concrete only)
    def s_While(self, st, env):
        for _ in range(10000):
            t = self.truth(self.eval(st.test, env))
            if not isinstance(t, bool):
                fc = self._float_controlled_output(st, t, env)
                if not fc and self._emits_output(st):
                    # the compared value may only become a rounded quantity inside the body (r = r0; while r <= rmax: ...; r += dr):
                    # look at the condition again after one abstract iteration
                    self.path_conds.append((t, True))
                    try:
                        self.exec_block(st.body, env)
                        fc = self._float_controlled_output(st, self.truth(self.eval(st.test, env)), env)
                    except (AnalysisError, RaiseSignal, BreakSignal, ContinueSignal, ReturnSignal):
                        fc = False
                    finally:
                        self.path_conds.pop()
                if fc:
                    # how many records are produced is decided by comparing floating-point values that came out of a
                    # division: for some inputs rounding adds or drops an iteration (no 'for all grids' statement can hold)
                    from .symeval_ops import ExcV
                    raise RaiseSignal(ExcV(ExtV("verif.FloatControlledOutputLoop"),
                                           [Const("the number of iterations of an output loop depends on the floating-point comparison %s"
                                                  % ast.unparse(st.test))]), st)
                self.err(st, "while loop with symbolic condition")
            if not t:
                break
            try:
                self.exec_block(st.body, env)
            except BreakSignal:
                return
            except ContinueSignal:
                continue
        else:
            self.err(st, "while loop did not terminate in 10000 abstract steps")
        self.exec_block(st.orelse, env)

    def _float_controlled_output(self, st, t, env):
        if isinstance(t, bool) or not (isinstance(st.test, ast.Compare) and len(st.test.ops) == 1
                                       and isinstance(st.test.ops[0], (ast.Lt, ast.LtE, ast.Gt, ast.GtE))):
            return False
        try:
            operands = [self.eval(st.test.left, env), self.eval(st.test.comparators[0], env)]
        except (AnalysisError, RaiseSignal):
            return False
        if not all(isinstance(a, Num) for a in operands) or not any(getattr(a, "inexact", False) for a in operands):
            return False
        return self._emits_output(st)

    def _emits_output(self, st):
        for n in ast.walk(ast.Module(body=st.body, type_ignores=[])):
            if isinstance(n, (ast.Yield, ast.YieldFrom)):
                return True
            if isinstance(n, ast.Call):
                f = n.func
                if isinstance(f, ast.Attribute) and f.attr in ("write", "writelines", "append", "extend", "writerow"):
                    return True
                if isinstance(f, ast.Name) and f.id == "print":
                    return True
        return False

    # ----------------------------------------------------------------- for
    def s_For(self, st, env):
        it = self.eval(st.iter, env)
        self.run_for(st, it, env)
        # orelse only for loops without break in symbolic form
        if st.orelse:
            self.exec_block(st.orelse, env)

    def run_for(self, st, it, env):
        if isinstance(it, SetAccV):
            self.err(st, "iteration over an unsorted set (hash order)")
        seq = self.as_iterable(it, st)
        if isinstance(seq, ListV):
            tail = getattr(seq, "tail", None)
            saved_tail = self.loop_body_tail
            try:
                for item in list(seq.items):
                    self.assign(st.target, item, env)
                    self.loop_body_tail = True
                    try:
                        self.exec_block(st.body, env)
                    except ContinueSignal:
                        continue
            except BreakSignal:
                return
            finally:
                self.loop_body_tail = saved_tail
            if tail:
                for part in tail:
                    self.run_for(st, part, env)
            return
        if isinstance(seq, SeqV) and seq.kind == "concat":
            for part in seq.parts:
                self.run_for(st, part, env)
            return
        if isinstance(seq, SeqV) and seq.kind == "nested":
            self.err(st, "iteration over nested symbolic sequence")
        if isinstance(seq, SortedV):
            self.err(st, "iteration over a symbolically sorted list")
        self.symbolic_loop(st, seq, env)

    def symbolic_loop(self, st, seq, env):
        chunk = self.match_chunk_idiom(st, env)
        var, lo, hi, elem, seqv = self.loop_binder(seq, st)
        ctx = LoopCtx(var, lo, hi, seqv)
        body = st.body
        assigned = _assigned_names(body) - _target_names(st.target)
        carried = {}
        accum = {}
        for name in sorted(assigned):
            if chunk is not None and name == chunk["list"]:
                continue
            if not _read_before_write(body, name) and env.vars.get(name) is None:
                continue
            if not _read_before_write(body, name):
                continue
            inc = _single_top_level_increment(body, name)
            if inc is not None and not (_names_in(inc[1]) & (assigned | _target_names(st.target))):
                step = self.num(self.eval(inc[1], env), st)
                if isinstance(inc[0], ast.Sub):
                    step = -step
                x0 = env.lookup(name)
                if x0 is None:
                    self.err(st, "accumulator %s not initialised" % name)
                accum[name] = (self.num(x0, st), step)
            else:
                carried[name] = True
        k = ep.sym(var) - lo
        for name, (x0, step) in accum.items():
            env.vars[name] = Num(x0 + k * step)
        for name in carried:
            # "accum": every iteration computes the new value from the old one (a recurrence the evaluator could not put in
            # closed form - its own limit); "carried": on some path the value of an earlier iteration is simply kept
            env.vars[name] = Unknown(("accum:" if _self_referential(body, name) else "carried:") + name)
        self.assign(st.target, elem, env)
        # marks
        for b in self.live_buffers():
            ctx.buf_marks[id(b)] = (b, len(b.pieces))
        for l in self.live_lists(env):
            ctx.list_marks[id(l)] = (l, len(getattr(l, "tail", None) or []))
        self.loop_stack.append(ctx)
        self.event_stack.append([])
        if chunk is not None:
            env.vars[chunk["list"]] = ChunkListV(chunk)
            chunk["ctx"] = ctx
        saved_tail = self.loop_body_tail
        self.loop_body_tail = True
        try:
            try:
                self.exec_block(body, env)
            except ContinueSignal:
                pass
            except BreakSignal:
                self.err(st, "break inside a loop with symbolic trip count")
            except ReturnSignal:
                self.err(st, "return inside a loop with symbolic trip count")
        finally:
            self.loop_body_tail = saved_tail
            self.loop_stack.pop()
            evs = self.event_stack.pop()
        if evs:
            self.log_event(("loop", evs))
        # wrap emitted text
        for bid, (b, n0) in ctx.buf_marks.items():
            new = b.pieces[n0:]
            if new:
                del b.pieces[n0:]
                b.pieces.append(self.wrap_rep(ctx, SCat(new), chunk))
        # wrap appended elements
        for lid, (l, n0) in ctx.list_marks.items():
            tail = getattr(l, "tail", None) or []
            new = tail[n0:]
            if new:
                del tail[n0:]
                if len(new) == 1 and isinstance(new[0], ListV) and len(new[0].items) == 1 and not getattr(new[0], "tail", None):
                    e = new[0].items[0]
                    part = SeqV("seqmap", var=var, seq=seqv, elem=e) if seqv is not None else SeqV("family", var=var, lo=lo, hi=hi, elem=e)
                else:
                    part = SeqV("nested", var=var, lo=lo, hi=hi, seq=seqv, parts=new)
                tail.append(part)
        if chunk is not None and chunk.get("list_emit") is not None:
            self.chunk_list_emit(chunk, var, lo, hi, seqv)
        # dict stores
        for did, (d, stores) in ctx.dict_stores.items():
            if d.items or len(stores) != 1 or seqv is None:
                self.err(st, "unsupported symbolic dictionary fill")
            self.rebind(d, LoopDictV(var, seqv, stores[0][0], stores[0][1]))
        # values after the loop
        n = hi - lo
        for name, (x0, step) in accum.items():
            env.vars[name] = Num(x0 + n * step)
        for name in carried:
            env.vars[name] = Unknown("after-loop:" + name)
        for name in _target_names(st.target) | (assigned - set(accum) - set(carried)):
            v = env.vars.get(name)
            if v is not None and chunk is not None and name == chunk["list"]:
                continue
            if v is not None:
                try:
                    env.vars[name] = self.subst(v, {var: hi - ep.const(1)})
                except AnalysisError:
                    env.vars[name] = Unknown("after-loop:" + name)
        if chunk is not None:
            env.vars[chunk["list"]] = ChunkListV(dict(chunk, remainder=True))

    def wrap_rep(self, ctx, body, chunk):
        ch = None
        if chunk is not None:
            ch = chunk.get("node")
        if ch is not None and chunk.get("emitted_in") is not None:
            # the only thing written in this loop must be the chunk rows
            parts = parts_of(body)
            if len(parts) == 1 and parts[0] is chunk["placeholder"]:
                n = ch
                return SChunk(ctx.var, ctx.lo, ctx.hi, n["item"], n["per"], n["sep"], n["end"], False, seq=ctx.seq) \
                    if True else None
            raise AnalysisError("chunk idiom mixed with other output in the same loop")
        if ctx.seq is not None:
            return SSeqRep(ctx.var, ctx.seq.key(), body)
        return SRep(ctx.var, ctx.lo, ctx.hi, body)

    def live_buffers(self):
        seen = {}
        def visit(v, depth=0):
            if isinstance(v, BufV):
                seen[id(v)] = v
            elif isinstance(v, InstV) and depth < 2:
                for a in v.attrs.values():
                    visit(a, depth + 1)
        for fr in self.stack:
            e = fr
            while e is not None:
                for v in e.vars.values():
                    visit(v)
                e = e.parent
        so = self.__dict__.get("_stdout")
        if so is not None:
            seen[id(so)] = so
        return list(seen.values())

    def live_lists(self, env):
        seen = {}
        for fr in self.stack:
            e = fr
            while e is not None:
                for v in e.vars.values():
                    if isinstance(v, ListV) and v.kind == "list":
                        seen[id(v)] = v
                e = e.parent
        return list(seen.values())

    # list mutation (overrides the concrete versions when inside symbolic loops)
    def m_ListV_append(self, base, args, kwargs, node):
        conds = self.guard_conds(getattr(base, "birth", 0))
        if conds:
            # the item is appended on some paths only: kept as a guarded piece, which only ''.join() knows how to use
            tail = base.__dict__.setdefault("tail", [])
            tail.append(SeqV("guarded", conds=list(conds), part=ListV([args[0]], "list")))
            return NONE
        if self.loop_stack and self._is_outer_list(base):
            tail = base.__dict__.setdefault("tail", [])
            tail.append(ListV([args[0]], "list"))
            return NONE
        tail = getattr(base, "tail", None)
        if tail:
            tail.append(ListV([args[0]], "list"))
            return NONE
        base.items.append(args[0])
        return NONE

    def _is_outer_list(self, base):
        ctx = self.loop_stack[-1]
        return id(base) in ctx.list_marks

    def m_ListV_extend(self, base, args, kwargs, node):
        self.list_extend(base, args[0], node)
        return NONE

    def list_extend(self, base, v, node):
        v = self.as_iterable(v, node)
        tail = getattr(base, "tail", None)
        if isinstance(v, ListV) and not getattr(v, "tail", None) and not tail and not (self.loop_stack and self._is_outer_list(base)):
            base.items.extend(v.items)
            return
        tail = base.__dict__.setdefault("tail", [])
        if isinstance(v, ListV):
            tail.append(ListV(list(v.items), "list"))
            for t in getattr(v, "tail", None) or []:
                tail.append(t)
        else:
            tail.append(v)

    def as_iterable(self, v, node=None):
        if isinstance(v, ListV) and getattr(v, "tail", None):
            parts = ([ListV(list(v.items), v.kind)] if v.items else []) + list(v.tail)
            return parts[0] if len(parts) == 1 else SeqV("concat", parts=parts)
        return super(StmtMixin, self).as_iterable(v, node)

    # set accumulation
    def m_SetAccV_add(self, base, args, kwargs, node):
        if not self.loop_stack:
            base.concrete.append(args[0])
            return NONE
        binders = tuple((c.var, c.seq.key() if c.seq is not None else ("range", c.lo, c.hi)) for c in self.loop_stack)
        base.adds.append((binders, args[0]))
        return NONE

    def m_SetAccV_update(self, base, args, kwargs, node):
        """set.update(iterables...) with concrete operands; inside a symbolic loop or with symbolic operands: not modelled"""
        if self.loop_stack:
            self.err(node, "set.update inside a symbolic loop")
        for a in args:
            it = a
            if isinstance(a, SetAccV):
                if a.adds:
                    self.err(node, "set.update with a symbolically filled set")
                items = list(a.concrete)
            else:
                it = self.as_iterable(a, node)
                if isinstance(it, DictV):
                    items = [k for k, _ in it.items.values()]
                elif isinstance(it, ListV) and not getattr(it, "tail", None):
                    items = list(it.items)
                else:
                    self.err(node, "set.update with a symbolic operand %r" % (a,))
            base.concrete.extend(items)
        return NONE

    def m_SetAccV_discard(self, base, args, kwargs, node):
        if base.adds or self.loop_stack:
            self.err(node, "set.discard on a symbolically filled set")
        k = args[0].key()
        base.concrete[:] = [c for c in base.concrete if c.key() != k]
        return NONE

    # ----------------------------------------------------------------- chunk idiom
    def match_chunk_idiom(self, st, env):
        """for ...: <pre>; L.append(E); if len(L) == K: <emit>; L = []"""
        body = st.body
        app_i = None
        for i, s in enumerate(body):
            if isinstance(s, ast.Expr) and isinstance(s.value, ast.Call) and isinstance(s.value.func, ast.Attribute) \
                    and s.value.func.attr == "append" and isinstance(s.value.func.value, ast.Name):
                lname = s.value.func.value.id
                # followed by if len(L) == K
                if i + 1 < len(body) and isinstance(body[i + 1], ast.If):
                    iff = body[i + 1]
                    t = iff.test
                    if isinstance(t, ast.Compare) and len(t.ops) == 1 and isinstance(t.ops[0], ast.Eq) \
                            and isinstance(t.left, ast.Call) and isinstance(t.left.func, ast.Name) and t.left.func.id == "len" \
                            and len(t.left.args) == 1 and isinstance(t.left.args[0], ast.Name) and t.left.args[0].id == lname \
                            and not iff.orelse and i + 2 == len(body):
                        resets = [x for x in iff.body if isinstance(x, ast.Assign) and len(x.targets) == 1
                                  and isinstance(x.targets[0], ast.Name) and x.targets[0].id == lname
                                  and isinstance(x.value, ast.List) and not x.value.elts]
                        if len(resets) == 1 and iff.body[-1] is resets[0]:
                            cur = env.lookup(lname)
                            if not (isinstance(cur, ListV) and not cur.items and not getattr(cur, "tail", None)):
                                return None
                            kv = self.eval(t.comparators[0], env)
                            kc = kv.const() if isinstance(kv, Num) else None
                            if kc is None:
                                return None
                            return {"list": lname, "per": int(kc), "append_stmt": s, "if_stmt": iff,
                                    "emit": [x for x in iff.body if x is not resets[0]], "node": None, "emitted_in": None,
                                    "placeholder": None, "remainder": False}
        return None

    def chunk_append(self, chunk, elem):
        chunk["elem"] = elem

    def chunk_row(self, chunk, pieces, node):
        """pieces: list of SNode where item fields carry the ITEM placeholder"""
        items = [p for p in pieces if isinstance(p, SFmt) and isinstance(p.value, ChunkItem)]
        lits = []
        cur = ""
        seq = []
        for p in pieces:
            if isinstance(p, SLit):
                cur += p.text
            elif isinstance(p, SFmt) and isinstance(p.value, ChunkItem):
                seq.append(cur)
                cur = ""
            else:
                self.err(node, "unexpected content in a chunk row")
        end = cur
        if len(items) != chunk["per"]:
            self.err(node, "chunk row has %d fields for %d items" % (len(items), chunk["per"]))
        specs = set((i.conv, i.flags, i.width, i.prec) for i in items)
        if len(specs) != 1:
            self.err(node, "chunk row fields differ in format")
        prefix = seq[0]
        seps = set(seq[1:])
        if len(seps) > 1:
            self.err(node, "chunk row separators differ")
        sep = seps.pop() if seps else ""
        it = items[0]
        elem = chunk["elem"]
        own = set(id(i.value.spec) for i in items if getattr(i.value, "spec", None) is not None)
        if own:
            if len(own) != 1 or any(getattr(i.value, "spec", None) is None for i in items):
                self.err(node, "chunk row mixes items of different row buffers")
            elem = items[0].value.spec["elem"]
        if it.conv == "s" and it.width is None and is_strlike(elem):
            item_node = to_node(elem)
        else:
            item_node = SFmt(it.conv, elem, it.flags, it.width, it.prec)
        return {"item": item_node, "per": chunk["per"], "sep": sep, "end": end, "prefix": prefix}


class ChunkItem(V):
    def __init__(self, idx, spec=None):
        self.idx = idx
        self.spec = spec        # the row buffer the item belongs to (its element may be a mapped one)

    def key(self):
        return ("chunkitem", self.idx)


def _load(target):
    import copy
    t = copy.copy(target)
    t.ctx = ast.Load()
    return t


def _assigned_names(body):
    out = set()
    for st in body:
        for n in ast.walk(st):
            if isinstance(n, (ast.FunctionDef, ast.Lambda, ast.ClassDef)):
                continue
            if isinstance(n, ast.Name) and isinstance(n.ctx, ast.Store):
                out.add(n.id)
            elif isinstance(n, ast.AugAssign) and isinstance(n.target, ast.Name):
                out.add(n.target.id)
    return out


def _target_names(t):
    return set(n.id for n in ast.walk(t) if isinstance(n, ast.Name))


def _names_in(expr):
    return set(n.id for n in ast.walk(expr) if isinstance(n, ast.Name))


def _read_before_write(body, name):
    """is ``name`` possibly read in body before an unconditional top-level write?"""
    for st in body:
        # reads in this statement?
        reads = False
        for n in ast.walk(st):
            if isinstance(n, ast.Name) and n.id == name and isinstance(n.ctx, ast.Load):
                reads = True
            if isinstance(n, ast.AugAssign) and isinstance(n.target, ast.Name) and n.target.id == name:
                reads = True
        if reads:
            return True
        if isinstance(st, ast.Assign) and any(isinstance(t, ast.Name) and t.id == name for t in st.targets):
            return False
        if isinstance(st, ast.Assign):
            for t in st.targets:
                if isinstance(t, (ast.Tuple, ast.List)) and any(isinstance(e, ast.Name) and e.id == name for e in t.elts):
                    return False
    return False


def _self_referential(body, name):
    """every assignment to name in the loop body reads name on its right-hand side"""
    seen = False
    for n in ast.walk(ast.Module(body=body, type_ignores=[])):
        if isinstance(n, ast.AugAssign) and isinstance(n.target, ast.Name) and n.target.id == name:
            seen = True
        elif isinstance(n, ast.Assign) and any(isinstance(t, ast.Name) and t.id == name for t in n.targets):
            if not any(isinstance(x, ast.Name) and x.id == name for x in ast.walk(n.value)):
                return False
            seen = True
    return seen


def _single_top_level_increment(body, name):
    """-> (op, value expr) if the only assignment to name in body is one
    top-level ``name += expr`` / ``name -= expr``"""
    found = None
    for st in body:
        if isinstance(st, ast.AugAssign) and isinstance(st.target, ast.Name) and st.target.id == name \
                and isinstance(st.op, (ast.Add, ast.Sub)):
            if found is not None:
                return None
            found = (st.op, st.value)
            continue
        # the spelled-out form  name = name + expr  /  name = expr + name  /  name = name - expr
        if isinstance(st, ast.Assign) and len(st.targets) == 1 and isinstance(st.targets[0], ast.Name) and st.targets[0].id == name \
                and isinstance(st.value, ast.BinOp) and isinstance(st.value.op, (ast.Add, ast.Sub)):
            l, r = st.value.left, st.value.right
            inc = None
            if isinstance(l, ast.Name) and l.id == name and not any(isinstance(n, ast.Name) and n.id == name for n in ast.walk(r)):
                inc = (st.value.op, r)
            elif isinstance(st.value.op, ast.Add) and isinstance(r, ast.Name) and r.id == name \
                    and not any(isinstance(n, ast.Name) and n.id == name for n in ast.walk(l)):
                inc = (st.value.op, l)
            if inc is not None:
                if found is not None:
                    return None
                found = inc
                continue
        for n in ast.walk(st):
            if isinstance(n, ast.Name) and n.id == name and isinstance(n.ctx, ast.Store):
                return None
            if isinstance(n, ast.AugAssign) and isinstance(n.target, ast.Name) and n.target.id == name:
                return None
    return found

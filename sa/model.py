"""E-MODEL: program model and resolver for /repo/atsim (stdlib ast only).

Parses every module of the ``atsim`` package on each run, indexes classes,
functions, methods, properties and module-level bindings, and resolves names
through (relative) imports, star-imports and the class hierarchy.  Nothing from
/repo is imported or executed.
"""
import ast
import os
import warnings

REPO = os.environ.get("VERIF_REPO", "/repo")
PKG_ROOT = "atsim"


class AnalysisError(Exception):
    """The analysed construct is outside the analysable subset, or an anchor
    vanished.  Reported as ANALYSIS-ERROR (exit 2), never as a VIOLATION."""


class Module(object):
    def __init__(self, name, path, src, tree, is_pkg):
        self.name = name
        self.path = path
        self.src = src
        self.tree = tree
        self.is_pkg = is_pkg
        self.bindings = {}      # name -> Binding
        self.star_imports = []  # module names

    @property
    def relpath(self):
        return os.path.relpath(self.path, REPO)

    def __repr__(self):
        return "<Module %s>" % self.name


class Binding(object):
    """kind in: func, class, import_module, import_from, assign"""
    def __init__(self, kind, node, module, target=None, attr=None):
        self.kind = kind
        self.node = node
        self.module = module      # defining Module
        self.target = target      # for imports: module name
        self.attr = attr          # for import_from: attribute name


class FuncInfo(object):
    def __init__(self, module, node, cls=None, parent=None):
        self.module = module
        self.node = node
        self.cls = cls
        self.parent = parent  # enclosing FuncInfo for nested functions
        self.name = node.name

    @property
    def qualname(self):
        if self.cls is not None:
            return "%s.%s" % (self.cls.name, self.name)
        if self.parent is not None:
            return "%s.<locals>.%s" % (self.parent.qualname, self.name)
        return self.name

    @property
    def fq(self):
        return "%s:%s" % (self.module.name, self.qualname)

    @property
    def decorators(self):
        out = []
        for d in self.node.decorator_list:
            out.append(ast.unparse(d))
        return out

    @property
    def is_property(self):
        return "property" in self.decorators

    @property
    def is_setter(self):
        return any(d.endswith(".setter") for d in self.decorators)

    @property
    def is_classmethod(self):
        return "classmethod" in self.decorators

    @property
    def is_staticmethod(self):
        return "staticmethod" in self.decorators

    def site(self, node=None):
        ln = getattr(node, "lineno", None) or self.node.lineno
        return "%s:%d %s" % (self.module.relpath, ln, self.qualname)

    def params(self):
        a = self.node.args
        return [x.arg for x in a.posonlyargs + a.args]

    def __repr__(self):
        return "<Func %s>" % self.fq


class ClassInfo(object):
    def __init__(self, module, node, program):
        self.module = module
        self.node = node
        self.name = node.name
        self.program = program
        self.methods = {}      # name -> FuncInfo (plain + property getters)
        self.setters = {}      # name -> FuncInfo
        self.class_attrs = {}  # name -> ast expr
        self.ann_fields = []   # (name, default expr or None) of annotated class-level names, in order
        for st in node.body:
            if isinstance(st, ast.FunctionDef):
                fi = FuncInfo(module, st, cls=self)
                if fi.is_setter:
                    self.setters[st.name] = fi
                else:
                    self.methods[st.name] = fi
            elif isinstance(st, ast.Assign):
                for t in st.targets:
                    if isinstance(t, ast.Name):
                        self.class_attrs[t.id] = st.value
            elif isinstance(st, ast.AnnAssign) and isinstance(st.target, ast.Name):
                self.ann_fields.append((st.target.id, st.value))       # annotated names in order (dataclass / NamedTuple fields)
                if st.value is not None:
                    self.class_attrs[st.target.id] = st.value

    @property
    def fq(self):
        return "%s:%s" % (self.module.name, self.name)

    def site(self, node=None):
        return "%s:%d %s" % (self.module.relpath, getattr(node, "lineno", None) or self.node.lineno, self.name)

    def site_of(self, method):
        """report position: the named method if the class (still) has it, otherwise the class"""
        f = self.lookup(method)
        return f.site() if f is not None else self.site()

    def bases(self):
        out = []
        for b in self.node.bases:
            r = self.program.resolve_expr(self.module, b)
            if isinstance(r, ClassInfo):
                out.append(r)
            else:
                out.append(ExternalClass(ast.unparse(b)))
        return out

    def mro(self):
        # C3 is overkill for this single-inheritance code base; do a
        # depth-first left-to-right linearisation with duplicate removal that
        # coincides with C3 on every hierarchy in the repository (all are
        # single inheritance, except one exception class with two bases that
        # share ancestors) - verified below by the order-preservation check.
        seen = []
        def visit(c):
            if c in seen:
                return
            seen.append(c)
            if isinstance(c, ClassInfo):
                for b in c.bases():
                    visit(b)
        visit(self)
        return seen

    def lookup(self, name):
        """Find method ``name`` through the MRO -> FuncInfo or None."""
        for c in self.mro():
            if isinstance(c, ClassInfo) and name in c.methods:
                return c.methods[name]
        return None

    def lookup_class_attr(self, name):
        for c in self.mro():
            if isinstance(c, ClassInfo) and name in c.class_attrs:
                return c, c.class_attrs[name]
        return None, None

    def is_subclass_of(self, other):
        for c in self.mro():
            if c is other:
                return True
            if isinstance(other, str) and getattr(c, "name", None) == other:
                return True
        return False

    def __repr__(self):
        return "<Class %s>" % self.fq


class ExternalClass(object):
    def __init__(self, name):
        self.name = name

    def __eq__(self, o):
        return isinstance(o, ExternalClass) and o.name == self.name

    def __hash__(self):
        return hash(("ext", self.name))

    def __repr__(self):
        return "<ExternalClass %s>" % self.name


_EXT_EXPORTS = {}


def _external_exports(modname, name):
    """does `from <library module> import *` bind `name`?  (asked of the installed library, not of the analysed package)"""
    if modname not in _EXT_EXPORTS:
        try:
            import importlib
            mod = importlib.import_module(modname)
            names = getattr(mod, "__all__", None)
            if names is None:
                names = [n for n in dir(mod) if not n.startswith("_")]
            _EXT_EXPORTS[modname] = set(names)
        except Exception:
            _EXT_EXPORTS[modname] = set()
    return name in _EXT_EXPORTS[modname]


class External(object):
    """A name resolved to something outside the analysed package."""
    def __init__(self, name):
        self.name = name

    def __repr__(self):
        return "<External %s>" % self.name


class Program(object):
    def __init__(self, repo=None):
        self.repo = repo or REPO
        self.modules = {}
        self.classes = {}   # fq -> ClassInfo
        self.funcs = {}     # fq -> FuncInfo
        self._load()

    # ------------------------------------------------------------------
    def _load(self):
        root = os.path.join(self.repo, PKG_ROOT)
        if not os.path.isdir(root):
            raise AnalysisError("package root %s not found" % root)
        for dirpath, dirnames, filenames in os.walk(root):
            dirnames[:] = sorted(d for d in dirnames if d != "__pycache__")
            for fn in sorted(filenames):
                if not fn.endswith(".py"):
                    continue
                path = os.path.join(dirpath, fn)
                rel = os.path.relpath(path, self.repo)[:-3]
                parts = rel.split(os.sep)
                is_pkg = parts[-1] == "__init__"
                if is_pkg:
                    parts = parts[:-1]
                name = ".".join(parts)
                with open(path, encoding="utf-8") as f:
                    src = f.read()
                try:
                    with warnings.catch_warnings():
                        warnings.simplefilter("ignore")
                        tree = ast.parse(src, filename=path)
                except SyntaxError as e:
                    raise AnalysisError("cannot parse %s: %s" % (path, e))
                self.modules[name] = Module(name, path, src, tree, is_pkg)
        for m in self.modules.values():
            self._index_module(m)

    def add_file(self, name, path):
        """load an extra module (reference specifications under /verif/sa/specs)"""
        with open(path, encoding="utf-8") as f:
            src = f.read()
        tree = ast.parse(src, filename=path)
        m = Module(name, path, src, tree, False)
        self.modules[name] = m
        self._index_module(m)
        return m

    def _pkg_of(self, m):
        return m.name if m.is_pkg else m.name.rsplit(".", 1)[0]

    def _abs_import(self, m, level, modname):
        if level == 0:
            return modname
        base = self._pkg_of(m).split(".")
        if level > 1:
            base = base[: len(base) - (level - 1)]
        if modname:
            base = base + modname.split(".")
        return ".".join(base)

    def _index_body(self, m, body):
        for st in body:
            if isinstance(st, ast.FunctionDef):
                fi = FuncInfo(m, st)
                m.bindings[st.name] = Binding("func", fi, m)
                self.funcs[fi.fq] = fi
            elif isinstance(st, ast.ClassDef):
                ci = ClassInfo(m, st, self)
                m.bindings[st.name] = Binding("class", ci, m)
                self.classes[ci.fq] = ci
                for fi in list(ci.methods.values()) + list(ci.setters.values()):
                    key = fi.fq + (".setter" if fi.is_setter else "")
                    self.funcs[key] = fi
            elif isinstance(st, ast.Import):
                for a in st.names:
                    if a.asname:
                        m.bindings[a.asname] = Binding("import_module", st, m, target=a.name)
                    else:
                        top = a.name.split(".")[0]
                        m.bindings[top] = Binding("import_module", st, m, target=top)
            elif isinstance(st, ast.ImportFrom):
                target = self._abs_import(m, st.level, st.module)
                for a in st.names:
                    if a.name == "*":
                        m.star_imports.append(target)
                    else:
                        m.bindings[a.asname or a.name] = Binding(
                            "import_from", st, m, target=target, attr=a.name)
            elif isinstance(st, (ast.Assign, ast.AnnAssign)):
                targets = st.targets if isinstance(st, ast.Assign) else [st.target]
                for t in targets:
                    for n in ast.walk(t):
                        if isinstance(n, ast.Name) and isinstance(n.ctx, ast.Store):
                            m.bindings[n.id] = Binding("assign", st, m)
            elif isinstance(st, (ast.If, ast.Try)):
                # conditional definitions at module level (try/except import
                # fallbacks, ``if hasattr(math, ...)``): index every branch,
                # first binding wins for imports, defs are all visible.
                # the main body is indexed last so that its bindings win over fallbacks
                # (except ImportError: alternative import; else: definition for old interpreters)
                subs = self._sub_bodies(st)
                for sub in subs[1:] + subs[:1]:
                    self._index_body(m, sub)

    @staticmethod
    def _sub_bodies(st):
        out = [st.body]
        if isinstance(st, ast.If):
            out.append(st.orelse)
        else:
            for h in st.handlers:
                out.append(h.body)
            out.append(st.orelse)
            out.append(st.finalbody)
        return out

    def _index_module(self, m):
        self._index_body(m, m.tree.body)

    # ------------------------------------------------------------------
    def module(self, name):
        if name not in self.modules:
            raise AnalysisError("anchor module %s vanished" % name)
        return self.modules[name]

    def resolve_name(self, m, name, _seen=None):
        """Resolve a module-level name.  Returns FuncInfo | ClassInfo | Module
        | ('assign', Module, ast stmt) | External | None."""
        _seen = _seen or set()
        key = (m.name, name)
        if key in _seen:
            return None
        _seen.add(key)
        b = m.bindings.get(name)
        if b is None:
            for target in m.star_imports:
                tm = self.modules.get(target)
                if tm is None:
                    continue
                if name.startswith("_"):
                    continue
                r = self.resolve_name(tm, name, _seen)
                if r is not None:
                    return r
            for target in m.star_imports:
                if target in self.modules or name.startswith("_"):
                    continue
                if _external_exports(target, name):
                    return External("%s.%s" % (target, name))
            return None
        if b.kind in ("func", "class"):
            return b.node
        if b.kind == "assign":
            return ("assign", m, b.node)
        if b.kind == "import_module":
            if b.target in self.modules:
                return self.modules[b.target]
            return External(b.target)
        if b.kind == "import_from":
            sub = (b.target + "." + b.attr) if b.target else b.attr
            if sub in self.modules:
                return self.modules[sub]
            tm = self.modules.get(b.target)
            if tm is None:
                return External("%s.%s" % (b.target, b.attr))
            r = self.resolve_name(tm, b.attr, _seen)
            if r is None:
                return External("%s.%s" % (b.target, b.attr))
            return r
        return None

    def resolve_expr(self, m, expr):
        """Resolve Name / dotted Attribute at module level."""
        if isinstance(expr, ast.Name):
            return self.resolve_name(m, expr.id)
        if isinstance(expr, ast.Attribute):
            base = self.resolve_expr(m, expr.value)
            if isinstance(base, Module):
                sub = base.name + "." + expr.attr
                if sub in self.modules:
                    return self.modules[sub]
                return self.resolve_name(base, expr.attr)
            if isinstance(base, External):
                return External(base.name + "." + expr.attr)
            if isinstance(base, ClassInfo):
                f = base.lookup(expr.attr)
                if f is not None:
                    return f
                c, e = base.lookup_class_attr(expr.attr)
                if e is not None:
                    return ("classattr", c, e)
            return None
        return None

    # convenience anchors -----------------------------------------------
    def func(self, modname, qual):
        m = self.module(modname)
        parts = qual.split(".")
        r = self.resolve_name(m, parts[0])
        if len(parts) == 1:
            if not isinstance(r, FuncInfo):
                raise AnalysisError("anchor function %s:%s vanished" % (modname, qual))
            return r
        if not isinstance(r, ClassInfo):
            raise AnalysisError("anchor class %s:%s vanished" % (modname, parts[0]))
        f = r.lookup(parts[1])
        if f is None:
            raise AnalysisError("anchor method %s:%s vanished" % (modname, qual))
        return f

    def cls(self, modname, name):
        m = self.module(modname)
        r = self.resolve_name(m, name)
        if not isinstance(r, ClassInfo):
            raise AnalysisError("anchor class %s:%s vanished" % (modname, name))
        return r

    def subclasses(self, ci, strict=False):
        out = []
        for c in self.classes.values():
            if c is ci and strict:
                continue
            if c.is_subclass_of(ci):
                out.append(c)
        return out

    def all_functions(self):
        """Every FunctionDef in the package incl. nested, as FuncInfo."""
        out = []
        for m in self.modules.values():
            def walk(body, cls, parent):
                for st in body:
                    if isinstance(st, ast.FunctionDef):
                        if cls is not None and parent is None:
                            fi = cls.methods.get(st.name)
                            if fi is None or fi.node is not st:
                                fi = cls.setters.get(st.name)
                            if fi is None or fi.node is not st:
                                fi = FuncInfo(m, st, cls=cls)
                        elif parent is None and cls is None:
                            b = m.bindings.get(st.name)
                            fi = b.node if (b and b.kind == "func" and b.node.node is st) else FuncInfo(m, st)
                        else:
                            fi = FuncInfo(m, st, parent=parent)
                        out.append(fi)
                        walk(st.body, None, fi)
                    elif isinstance(st, ast.ClassDef):
                        ci = None
                        if parent is None and cls is None:
                            b = m.bindings.get(st.name)
                            if b and b.kind == "class":
                                ci = b.node
                        if ci is None:
                            ci = ClassInfo(m, st, self)
                        walk(st.body, ci, None if parent is None else parent)
                    else:
                        for f in ast.iter_fields(st):
                            v = f[1]
                            if isinstance(v, list) and v and isinstance(v[0], ast.stmt):
                                walk(v, cls, parent)
                            elif isinstance(v, list) and v and isinstance(v[0], ast.ExceptHandler):
                                for h in v:
                                    walk(h.body, cls, parent)
            walk(m.tree.body, None, None)
        return out

    def stats(self):
        nfun = len(self.all_functions())
        return {"modules": len(self.modules), "classes": len(self.classes),
                "functions": nfun}


def strip_docstring(body):
    if body and isinstance(body[0], ast.Expr) and isinstance(body[0].value, ast.Constant) \
            and isinstance(body[0].value.value, str):
        return body[1:]
    return body


def norm_stmt(node):
    """Normalised source text of a statement/expression (for keys)."""
    return " ".join(ast.unparse(node).split())

"""Recording model of the parts of openpyxl the Excel tabulations use
(Workbook.create_sheet / remove / active, worksheet cell access, iter_cols).
Only structure is modelled: a worksheet is a dict (row, col) -> abstract value."""
from . import ep
from .model import AnalysisError
from .values import *   # noqa
from .symeval_ops import PyObjV


class Cell(object):
    def __init__(self, ws, row, col):
        self.ws = ws
        self.row = row
        self.col = col

    def get_value(self, I):
        return self.ws.cells.get((self.row, self.col), NONE)

    def set_value(self, I, val):
        self.ws.cells[(self.row, self.col)] = val
        _note_row(I, self.ws, self.row)


def _cint(v, what):
    c = v.const() if isinstance(v, Num) else None
    if c is None or c.denominator != 1:
        raise AnalysisError("worksheet %s is not a concrete integer: %r" % (what, v))
    return int(c)


def _row(I, v):
    return I.num(v)


def _note_row(I, ws, row):
    """a row index that depends on the variable of an enclosing symbolic loop: remember the loop's range (how many rows)"""
    if row.as_const() is not None:
        return
    text = repr(row)
    for ctx in getattr(I, "loop_stack", []):
        if ctx.var in text:
            ws.row_ranges[row] = (ctx.var, ctx.lo, ctx.hi)


class Worksheet(object):
    def __init__(self, title):
        self.title = title
        self.cells = {}
        self.row_ranges = {}      # symbolic row index -> (loop variable, lo, hi) of the loop that fills it

    def setitem(self, I, idx, val):
        if isinstance(idx, Const) and isinstance(idx.v, str):
            col = ord(idx.v[0].upper()) - ord("A") + 1
            row = ep.const(int(idx.v[1:]))
            self.cells[(row, col)] = val
            return
        raise AnalysisError("worksheet item store %r" % (idx,))

    def m_cell(self, I, args, kwargs):
        row = _row(I, args[0] if args else kwargs["row"])
        col = _cint(args[1] if len(args) > 1 else kwargs["column"], "column")
        if "value" in kwargs:
            self.cells[(row, col)] = kwargs["value"]
            _note_row(I, self, row)
        elif len(args) > 2:
            self.cells[(row, col)] = args[2]
            _note_row(I, self, row)
        return PyObjV(Cell(self, row, col))

    def m_iter_cols(self, I, args, kwargs):
        r0 = _row(I, kwargs["min_row"])
        r1 = _row(I, kwargs["max_row"])
        if r0 != r1:
            r0c, r1c = r0.as_const(), r1.as_const()
            if r0c is None or r1c is None:
                raise AnalysisError("iter_cols over a symbolic range of rows")
            rows = [ep.const(r) for r in range(int(r0c), int(r1c) + 1)]
        else:
            rows = [r0]
        c0 = _cint(kwargs["min_col"], "min_col")
        c1 = _cint(kwargs["max_col"], "max_col")
        cols = []
        for c in range(c0, c1 + 1):
            cols.append(ListV([PyObjV(Cell(self, r, c)) for r in rows], "tuple"))
        return ListV(cols, "list")


class Workbook(object):
    def __init__(self):
        self.sheets = []
        self.active = Worksheet("Sheet")
        self.sheets.append(self.active)

    def get_active(self, I):
        return PyObjV(self.active)

    def m_remove(self, I, args, kwargs):
        ws = args[0].obj
        self.sheets = [s for s in self.sheets if s is not ws]
        return NONE

    def m_create_sheet(self, I, args, kwargs):
        t = args[0]
        ws = Worksheet(t.v if isinstance(t, Const) else repr(t))
        self.sheets.append(ws)
        return PyObjV(ws)

    def m_save(self, I, args, kwargs):
        # openpyxl: Workbook.save(filename) writes the workbook to that path
        saved = I.__dict__.setdefault("_saved_workbooks", {})
        saved[args[0].key()] = self
        return NONE

    def sheet(self, title):
        for s in self.sheets:
            if s.title == title:
                return s
        return None


class TempFile(object):
    """tempfile.NamedTemporaryFile(): this handle starts at position 0; data saved through the file's *name* (openpyxl opens
    the path itself) does not move this handle, so a read() returns the saved bytes whether or not seek(0) came first; a
    second read() without a rewind is at the end of the file"""
    def __init__(self):
        self.at_end = False

    def get_name(self, I):
        return Const("<tempfile>")

    def m_seek(self, I, args, kwargs):
        pos = args[0]
        if kwargs or len(args) != 1 or not (isinstance(pos, Num) and pos.const() == 0):
            raise AnalysisError("temporary file model: seek%r (only a rewind to 0 is modelled)" % (tuple(args),))
        self.at_end = False
        return NONE

    def m_read(self, I, args, kwargs):
        from .strtree import SFmt
        if args or kwargs:
            raise AnalysisError("temporary file model: read(size)")
        wb = I.__dict__.get("_saved_workbooks", {}).get(self.get_name(I).key())
        if wb is None or self.at_end:
            # nothing was saved under this file's name, or everything has been read already
            return Const("")
        self.at_end = True
        return StrV(SFmt("s", Opaque(("saved workbook bytes",))))


class TempDir(object):
    """tempfile.TemporaryDirectory(): entering gives the directory's path; leaving removes everything saved below it"""
    _n = [0]

    def __init__(self):
        TempDir._n[0] += 1
        self.path = "/<tmpdir%d>" % TempDir._n[0]

    def enter(self, I):
        return Const(self.path)

    def exit(self, I):
        saved = I.__dict__.get("_saved_workbooks", {})
        for k in [k for k in saved if k[0] == "const" and isinstance(k[1], str) and k[1].startswith(self.path + "/")]:
            del saved[k]

    def get_name(self, I):
        return Const(self.path)

    def m_cleanup(self, I, args, kwargs):
        if args or kwargs:
            raise AnalysisError("TemporaryDirectory.cleanup arguments")
        self.exit(I)
        return NONE


def install(I):
    """make ``from openpyxl import Workbook; Workbook()`` produce the model"""
    def make(args, kwargs, node, env):
        return PyObjV(Workbook())
    I.x_openpyxl_Workbook = make
    I.x_tempfile_NamedTemporaryFile = lambda args, kwargs, node, env: PyObjV(TempFile())

    def tmpdir(args, kwargs, node, env):
        if args or kwargs:
            raise AnalysisError("TemporaryDirectory arguments are not modelled")
        return PyObjV(TempDir())
    I.x_tempfile_TemporaryDirectory = tmpdir

#!/venv/bin/python
"""Run python (-m pytest / script / -c) with the 'atsim' package taken from a
scratch worktree instead of /repo (the /venv editable install hard-maps atsim
to /repo).  Usage: wtpy.py <worktree> [-m module | -c code | script.py] args...
"""
import os, runpy, sys
wt = os.path.abspath(sys.argv[1])
rest = sys.argv[2:]
import atsim
atsim.__path__[:] = [os.path.join(wt, "atsim")]
for k in [k for k in sys.modules if k.startswith("atsim.")]:
    del sys.modules[k]
try:
    import __editable___atsim_potentials_0_4_1_finder as f
    f.MAPPING["atsim"] = os.path.join(wt, "atsim")
    f.MAPPING["tests.config"] = os.path.join(wt, "tests", "config")
except ImportError:
    pass
os.chdir(wt)
sys.path.insert(0, wt)
if rest and rest[0] == "-m":
    sys.argv = [rest[1]] + rest[2:]
    runpy.run_module(rest[1], run_name="__main__", alter_sys=True)
elif rest and rest[0] == "-c":
    sys.argv = ["-c"] + rest[2:]
    exec(compile(rest[1], "<string>", "exec"), {"__name__": "__main__"})
else:
    sys.argv = rest
    runpy.run_path(rest[0], run_name="__main__")

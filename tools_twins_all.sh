#!/bin/sh
# Runs every behaviour-preserving twin / property-respecting extension under twins/ against all 20 checks
# (scratch worktrees, removed afterwards) and writes twins/RESULTS.txt.
cd /verif || exit 2
OUT=twins/RESULTS.txt
echo "# /repo $(git -C /repo rev-parse --short HEAD), /verif $(git -C /verif rev-parse --short HEAD) - twin -> checks that did not stay silent (1 = VIOLATION, 2 = ANALYSIS-ERROR)" > $OUT
for d in twins/T*/; do
  n=$(basename $d)
  ./tools_try_twin.sh $d/patch.diff > /tmp/tw_$n.out 2>&1
  if grep -q "all silent" /tmp/tw_$n.out; then
    echo "$n silent" >> $OUT
  else
    echo "$n $(grep '^== twin' /tmp/tw_$n.out | sed 's/.*check \(C[0-9]*\) exit=\([0-9]\)/\1=\2/' | tr '\n' ' ')" >> $OUT
    grep "^ANALYSIS-ERROR" /tmp/tw_$n.out | grep -v "matched" | sed 's/^/      /' | cut -c1-220 | sort -u | head -4 >> $OUT
  fi
  rm -f /tmp/tw_$n.out
done
cat $OUT

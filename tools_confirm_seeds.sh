#!/bin/sh
# Confirms each seeded change: applies to /repo, suite must still pass, demo must fail; reverted: demo must pass.
cd /repo || exit 2
git diff --quiet || { echo "/repo dirty"; exit 2; }
for d in /verif/seeded/*/; do
  id=$(basename $d)
  [ -n "$1" ] && [ "$1" != "$id" ] && continue
  git apply $d/patch.diff || { echo "$id APPLY-FAILED"; continue; }
  suite=$(/verif/tools_suite.sh | head -1)
  /venv/bin/python -W ignore $d/demo.py >/tmp/_demo.out 2>&1; rc_mut=$?
  git checkout -- . 
  /venv/bin/python -W ignore $d/demo.py >/tmp/_demo.out 2>&1; rc_clean=$?
  echo "$id | $suite | demo mutated rc=$rc_mut clean rc=$rc_clean"
done
rm -f /tmp/_demo.out

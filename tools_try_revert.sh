#!/bin/sh
# usage: tools_try_revert.sh <fix-commit> <property...>  (checks against a scratch worktree with that fix reverted)
C=$1; shift
WT=/tmp/repo_clean
[ -d $WT ] || git -C /repo worktree add -q --detach $WT HEAD
git -C $WT checkout -q -- . ; git -C $WT checkout -q --detach $(git -C /repo rev-parse HEAD)
git -C /repo show $C | git -C $WT apply -R || { echo "revert failed"; exit 2; }
for p in "$@"; do
  VERIF_EVIDENCE_DIR=/tmp/ev_scratch VERIF_REPO=$WT /verif/check $p > /tmp/_try.out 2>&1; rc=$?
  echo "== fix $C reverted, check $p exit=$rc"
  grep -E "^VIOLATION|^ANALYSIS-ERROR|^KNOWN|obligation:" /tmp/_try.out | head -${MAXL:-6}
done
git -C $WT checkout -q -- . ; git -C $WT checkout -q --detach $(git -C /repo rev-parse HEAD)

#!/bin/sh
# usage: tools_try_seed.sh <seed-id> <property...>   (runs checks against a scratch worktree with the seed applied)
S=$1; shift
WT=/tmp/repo_clean
[ -d $WT ] || git -C /repo worktree add -q --detach $WT HEAD
git -C $WT checkout -q -- . ; git -C $WT checkout -q --detach $(git -C /repo rev-parse HEAD) 2>/dev/null
git -C $WT apply /verif/seeded/$S/patch.diff || { echo "apply failed"; exit 2; }
for p in "$@"; do
  VERIF_EVIDENCE_DIR=/tmp/ev_scratch VERIF_REPO=$WT /verif/check $p > /tmp/_try.out 2>&1; rc=$?
  echo "== seed $S check $p exit=$rc"
  grep -E "^VIOLATION|^ANALYSIS-ERROR|^KNOWN" /tmp/_try.out | head -${MAXL:-6}
  [ -n "$VERBOSE" ] && cat /tmp/_try.out
done
git -C $WT reset -q --hard

#!/venv/bin/python
"""Mutation analysis of the checks (a self-test of /verif, not a registered check).

Generates single-edit mutants of /repo/atsim (AST-located, spliced into the source text), keeps those that still
compile AND still pass the pinned 162-test suite (the changes unit tests cannot see), runs all 20 checks on each and
records which check reports it.  Survivors that no check reports are written to selftest/mutants_unflagged.txt for
triage (equivalent mutant / outside every property / genuine miss).

usage: tools_mutants.py [--max N] [--files glob-substring,...] [--seed S] [--out DIR]
Scratch worktrees /tmp/wt_mut_<slot> are created and removed by this tool."""
import ast, hashlib, json, os, random, re, shutil, subprocess, sys, time
from concurrent.futures import ThreadPoolExecutor

REPO = '/repo'
HEAD = subprocess.check_output(['git', '-C', REPO, 'rev-parse', 'HEAD'], text=True).strip()
CHECKS = ["C%02d" % i for i in range(1, 21)]
SKIP_DIRS = ('tests', 'docs')
# the five tests that fail on the unchanged tree in this sandbox (sympy is not installed)
DESELECT = []
for t in ('tests/config/test_modifiers.py::test_product_modifier', 'tests/config/test_modifiers.py::test_pow_modifier',
          'tests/config/test_modifiers.py::test_trans_modifier',
          'tests/test_documentation_examples.py::eam_tabulate_example2TestCase::testExampleA_obj',
          'tests/test_potentialforms.py::test_tang_toennies'):
    DESELECT += ['--deselect', t]


def arg(name, default):
    if name in sys.argv:
        return sys.argv[sys.argv.index(name) + 1]
    return default


MAXN = int(arg('--max', '400'))
SEED = int(arg('--seed', '1'))
FILES = [f for f in arg('--files', '').split(',') if f]
OUT = arg('--out', '/verif/selftest')
OPS = [o for o in arg('--ops', '').split(',') if o]
# excluded by default: the element data table (numbers with no static oracle: DESIGN.md 11.2, C03) and the namespace stub
EXCLUDE = [f for f in arg('--exclude', 'referencedata/_data.py,atsim/__init__.py').split(',') if f]


def source_files():
    out = []
    for root, dirs, files in os.walk(os.path.join(REPO, 'atsim')):
        for f in files:
            if f.endswith('.py'):
                p = os.path.join(root, f)
                rel = os.path.relpath(p, REPO)
                if FILES and not any(x in rel for x in FILES):
                    continue
                if any(x in rel for x in EXCLUDE):
                    continue
                out.append(rel)
    return sorted(out)


class Mut(object):
    def __init__(self, rel, node, new_text, op, func):
        self.rel, self.op, self.func = rel, op, func
        self.l0, self.c0, self.l1, self.c1 = node.lineno, node.col_offset, node.end_lineno, node.end_col_offset
        self.new = new_text

    def ident(self):
        return "%s:%d:%d %s [%s] -> %s" % (self.rel, self.l0, self.c0, self.op, self.func, self.new[:60].replace("\n", " "))


def splice(src_lines, m):
    lines = list(src_lines)
    # col offsets are utf8 byte offsets; the repo is ascii in code positions, fall back by bytes
    first = lines[m.l0 - 1].encode('utf8')
    last = lines[m.l1 - 1].encode('utf8')
    new = first[:m.c0] + m.new.encode('utf8') + last[m.c1:]
    lines[m.l0 - 1:m.l1] = [new.decode('utf8')]
    return lines


def enclosing_functions(tree):
    owner = {}
    def visit(node, name):
        for ch in ast.iter_child_nodes(node):
            nm = name
            if isinstance(ch, (ast.FunctionDef, ast.ClassDef)):
                nm = (name + "." if name else "") + ch.name
            owner[id(ch)] = nm
            visit(ch, nm)
    visit(tree, "")
    return owner


def mutants_of(rel):
    src = open(os.path.join(REPO, rel)).read()
    try:
        tree = ast.parse(src)
    except SyntaxError:
        return []
    owner = enclosing_functions(tree)
    out = []
    docstrings = set()
    for n in ast.walk(tree):
        if isinstance(n, (ast.FunctionDef, ast.ClassDef, ast.Module)) and n.body and isinstance(n.body[0], ast.Expr) \
                and isinstance(n.body[0].value, ast.Constant) and isinstance(n.body[0].value.value, str):
            docstrings.add(id(n.body[0].value))

    def add(node, new_node_or_text, op):
        text = new_node_or_text if isinstance(new_node_or_text, str) else ast.unparse(new_node_or_text)
        out.append(Mut(rel, node, text, op, owner.get(id(node), "")))

    for n in ast.walk(tree):
        if not hasattr(n, 'lineno') or not hasattr(n, 'end_col_offset'):
            continue
        # inside logging / debug calls: skip (no property speaks about log text)
        if isinstance(n, ast.Constant) and id(n) in docstrings:
            continue
        if isinstance(n, ast.BinOp):
            swaps = {ast.Add: ast.Sub, ast.Sub: ast.Add, ast.Mult: ast.Div, ast.Div: ast.Mult}
            t = swaps.get(type(n.op))
            if t is not None and not (isinstance(n.op, ast.Mod)):
                if isinstance(n.left, ast.Constant) and isinstance(n.left.value, str):
                    continue
                add(n, ast.BinOp(left=n.left, op=t(), right=n.right), "binop")
        elif isinstance(n, ast.Compare) and len(n.ops) == 1:
            swaps = {ast.Lt: ast.LtE, ast.LtE: ast.Lt, ast.Gt: ast.GtE, ast.GtE: ast.Gt, ast.Eq: ast.NotEq, ast.NotEq: ast.Eq,
                     ast.Is: ast.IsNot, ast.IsNot: ast.Is, ast.In: ast.NotIn, ast.NotIn: ast.In}
            t = swaps.get(type(n.ops[0]))
            if t is not None:
                add(n, ast.Compare(left=n.left, ops=[t()], comparators=n.comparators), "cmp")
        elif isinstance(n, ast.BoolOp):
            t = ast.Or if isinstance(n.op, ast.And) else ast.And
            add(n, ast.BoolOp(op=t(), values=n.values), "boolop")
        elif isinstance(n, ast.UnaryOp) and isinstance(n.op, ast.Not):
            add(n, n.operand, "dropnot")
        elif isinstance(n, ast.UnaryOp) and isinstance(n.op, ast.USub) and not isinstance(n.operand, ast.Constant):
            add(n, n.operand, "dropneg")
        elif isinstance(n, ast.Constant) and isinstance(n.value, bool):
            add(n, "False" if n.value else "True", "bool")
        elif isinstance(n, ast.Constant) and isinstance(n.value, int) and not isinstance(n.value, bool):
            add(n, str(n.value + 1), "int+1")
            if n.value > 0:
                add(n, str(n.value - 1), "int-1")
        elif isinstance(n, ast.Constant) and isinstance(n.value, float):
            add(n, repr(n.value * 1.001 if n.value else 0.001), "float")
        elif isinstance(n, ast.Constant) and isinstance(n.value, str):
            s = n.value
            # format-ish strings only
            m = re.search(r'%(\(\w+\))?[-+ 0#]*(\d+)?\.(\d+)([efg])', s)
            seg = ast.get_source_segment(src, n)
            if m and seg and '\n' not in seg:
                prec = int(m.group(3))
                new = seg.replace("." + m.group(3) + m.group(4), ".%d%s" % (prec - 1 if prec > 0 else 1, m.group(4)), 1)
                if new != seg:
                    add(n, new, "fmtprec")
            m = re.search(r'\{[^{}]*:\.?(\d+)?\.(\d+)([efg])\}', s)
            if m and seg and '\n' not in seg:
                prec = int(m.group(2))
                new = seg.replace("." + m.group(2) + m.group(3) + "}", ".%d%s}" % (prec - 1 if prec > 0 else 1, m.group(3)), 1)
                if new != seg:
                    add(n, new, "fmtprec")
        elif isinstance(n, ast.Call):
            if len(n.args) >= 2 and not any(isinstance(a, ast.Starred) for a in n.args):
                for i in range(len(n.args) - 1):
                    if ast.dump(n.args[i]) != ast.dump(n.args[i + 1]):
                        args = list(n.args)
                        args[i], args[i + 1] = args[i + 1], args[i]
                        add(n, ast.Call(func=n.func, args=args, keywords=n.keywords), "swapargs%d" % i)
            if isinstance(n.func, ast.Name) and n.func.id == "sorted" and len(n.args) == 1 and not n.keywords:
                add(n, n.args[0], "unsorted")
            if isinstance(n.func, ast.Name) and n.func.id == "range" and 1 <= len(n.args) <= 2:
                args = list(n.args)
                args[-1] = ast.BinOp(left=args[-1], op=ast.Sub(), right=ast.Constant(value=1))
                add(n, ast.Call(func=n.func, args=args, keywords=[]), "range-1")
        elif isinstance(n, ast.Subscript) and isinstance(n.slice, ast.Constant) and n.slice.value in (0, 1) and isinstance(n.ctx, ast.Load):
            add(n, ast.Subscript(value=n.value, slice=ast.Constant(value=1 - n.slice.value), ctx=ast.Load()), "index")
        elif isinstance(n, ast.If):
            # negate the test
            add(n.test, ast.UnaryOp(op=ast.Not(), operand=n.test), "negif")
        elif isinstance(n, ast.Expr) and isinstance(n.value, ast.Call):
            f = n.value.func
            nm = f.attr if isinstance(f, ast.Attribute) else getattr(f, 'id', '')
            if nm not in ('debug', 'info', 'warning', 'warn', 'error', 'basicConfig', 'setLevel'):
                add(n, "pass", "delcall")
        elif isinstance(n, ast.Return) and n.value is not None and not isinstance(n.value, ast.Constant):
            pass
        elif isinstance(n, ast.Raise) and n.exc is not None:
            add(n, "pass", "delraise")
    # drop mutants in logging calls
    return out


def in_logging_call(src_tree, m):
    return False


def run(cmd, **kw):
    return subprocess.run(cmd, capture_output=True, text=True, **kw)


def worker(slot, muts, results):
    wt = '/tmp/wt_mut_%d' % slot
    ev = '/tmp/ev_mut_%d' % slot
    if os.path.isdir(wt):
        run(['git', '-C', REPO, 'worktree', 'remove', '--force', wt])
    subprocess.check_call(['git', '-C', REPO, 'worktree', 'add', '-q', '--detach', wt, HEAD])
    try:
        for m in muts:
            rec = {'id': m.ident(), 'rel': m.rel, 'op': m.op, 'func': m.func, 'line': m.l0}
            path = os.path.join(wt, m.rel)
            orig = open(path).read()
            try:
                lines = splice(orig.split('\n'), m)
                new = '\n'.join(lines)
                try:
                    compile(new, path, 'exec')
                except SyntaxError:
                    rec['status'] = 'syntax'
                    results.append(rec)
                    continue
                open(path, 'w').write(new)
                p = run(['/venv/bin/python', '-W', 'ignore', '/verif/tools_wtpy.py', wt, '-m', 'pytest', '-q', '-p', 'no:cacheprovider',
                         '--timeout=120', '--continue-on-collection-errors', '-x', *DESELECT,
                         os.path.join(wt, 'tests')], cwd=wt, timeout=900)
                tail = p.stdout.strip().splitlines()[-1] if p.stdout.strip() else ''
                mm = re.search(r'(\d+) passed', tail)
                npass = int(mm.group(1)) if mm else 0
                failed = ('failed' in tail) or ('error' in tail)
                rec['suite'] = tail[-80:]
                if npass < BASE_PASS or (failed and npass < BASE_PASS):
                    rec['status'] = 'killed-by-suite'
                    results.append(rec)
                    continue
                flagged, errs = [], []
                for c in CHECKS:
                    env = dict(os.environ, VERIF_REPO=wt, VERIF_EVIDENCE_DIR=ev)
                    q = run(['/verif/check', c], env=env)
                    if q.returncode == 1:
                        keys = [l.strip()[4:] for l in q.stdout.splitlines() if l.startswith('  key ')]
                        flagged.append((c, keys[:2]))
                    elif q.returncode != 0:
                        errs.append((c, [l[:200] for l in q.stdout.splitlines() if l.startswith('ANALYSIS-ERROR')][:1]))
                rec['flagged'] = flagged
                rec['errors'] = errs
                rec['status'] = 'flagged' if flagged else ('analysis-error' if errs else 'unflagged')
                results.append(rec)
            finally:
                open(path, 'w').write(orig)
    finally:
        run(['git', '-C', REPO, 'worktree', 'remove', '--force', wt])
        shutil.rmtree(ev, ignore_errors=True)


def baseline_pass():
    wt = '/tmp/wt_mut_base'
    run(['git', '-C', REPO, 'worktree', 'remove', '--force', wt])
    subprocess.check_call(['git', '-C', REPO, 'worktree', 'add', '-q', '--detach', wt, HEAD])
    p = run(['/venv/bin/python', '-W', 'ignore', '/verif/tools_wtpy.py', wt, '-m', 'pytest', '-q', '-p', 'no:cacheprovider', '--timeout=120',
             '--continue-on-collection-errors', '-x', *DESELECT, os.path.join(wt, 'tests')], cwd=wt)
    tail = p.stdout.strip().splitlines()[-1]
    run(['git', '-C', REPO, 'worktree', 'remove', '--force', wt])
    mm = re.search(r'(\d+) passed', tail)
    print("baseline:", tail)
    return int(mm.group(1))


if __name__ == '__main__':
    t0 = time.time()
    allm = []
    for rel in source_files():
        allm.extend(mutants_of(rel))
    if OPS:
        allm = [m for m in allm if any(m.op.startswith(o) for o in OPS)]
    random.Random(SEED).shuffle(allm)
    print("candidate mutants:", len(allm))
    allm = allm[:MAXN]
    BASE_PASS = baseline_pass()
    slots = 16
    parts = [allm[i::slots] for i in range(slots)]
    results = []
    with ThreadPoolExecutor(slots) as ex:
        list(ex.map(lambda a: worker(a[0], a[1], results), [(i, p) for i, p in enumerate(parts) if p]))
    run(['git', '-C', REPO, 'worktree', 'prune'])
    os.makedirs(OUT, exist_ok=True)
    tag = "seed%d_n%d%s" % (SEED, MAXN, ("_" + "_".join(x.replace('/', '-') for x in FILES)) if FILES else "")
    json.dump(results, open(os.path.join(OUT, 'mutants_%s.json' % tag), 'w'), indent=1)
    from collections import Counter
    cnt = Counter(r['status'] for r in results)
    with open(os.path.join(OUT, 'mutants_%s.txt' % tag), 'w') as f:
        f.write("# /repo %s, %d mutants, %s, %.0f s\n" % (HEAD[:7], len(results), dict(cnt), time.time() - t0))
        for st in ('unflagged', 'analysis-error', 'flagged'):
            f.write("\n== %s\n" % st)
            for r in sorted((r for r in results if r['status'] == st), key=lambda r: r['id']):
                f.write("%s\n" % r['id'])
                for c, keys in r.get('flagged', []):
                    f.write("      %s %s\n" % (c, "; ".join(keys)))
                for c, e in r.get('errors', []):
                    f.write("      %s %s\n" % (c, "; ".join(e)))
    print(dict(cnt), "%.0f s" % (time.time() - t0))
